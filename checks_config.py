"""Per-property run specifications for /verif/check.

Each run spec: test (Go test function), kind (rapid|plain|fuzz), checks
(rapid.checks per shard), shards, timeout (s), optional steps/env/race/fuzztime.
"""

def R(test, checks, shards=1, timeout=600, **kw):
    d = {"test": test, "kind": "rapid", "checks": checks, "shards": shards, "timeout": timeout}
    d.update(kw)
    return d

def P(test, timeout=600, **kw):
    d = {"test": test, "kind": "plain", "timeout": timeout}
    d.update(kw)
    return d

def F(test, fuzztime, timeout=900, **kw):
    d = {"test": test, "kind": "fuzz", "fuzztime": fuzztime, "timeout": timeout}
    d.update(kw)
    return d

PROPS = {}
PENDING_REASON = {}

PROPS["C03"] = {
    "pkg": "c03", "level": "exploration",
    "rule": ("rapid draws a six-option filter (each option present with p~0.35-0.4; regex/notRegex from a grammar producing "
             "^literal+quantifier, top-level alternation, escaped dot + quantifier, groups, classes, mid anchors) and names "
             "sampled from the filter's own regex tree / literals then mutated; oracle = independent conjunction "
             "HasPrefix/!HasPrefix/Contains/!Contains/regexp.Match/!regexp.Match on the NAME. Sub-checks: matcher (direct), "
             "matcher_regex_only, places (same filter installed as blacklist entry, route filter, destination filter of "
             "sendAllMatch/sendFirstMatch, via modRoute/modDest, aggregation with/without cache and dropRaw, route and "
             "destination filter as seen by aggregation output; values and timestamps drawn from the filter literal alphabet), "
             "agg_cache (lookup histories with clock jumps >=100*wait and ticks). Non-trivial: >=2 options set, a regex with a "
             "quantifier or alternation in its first atoms, and a name on which the set options disagree (agg_cache: history "
             "with a cache hit and an eviction). Distinct = hash of (filter, name[s], place/history)."),
    "level_text": ("Generated-input search (rapid) against an independent reference predicate: ~300k filter x name evaluations per quick run, "
                   "at matcher.Match and at every place a filter is installed in a real table; holds on everything generated, not a proof."),
    "level_note": ("Trusts Go's regexp as RE2 reference; places are observed through capture routes, per-destination drop counters and the "
                   "aggregator output channel (mocked clock). Names are printable ASCII without whitespace."),
    "technique": "property-based testing (rapid): reference-model oracle + metamorphic value/timestamp variation + stateful cache histories",
    "assumptions": ["Go's regexp package is the reference RE2 implementation", "names are non-empty printable ASCII without whitespace"],
    "quick": [R("TestPropMatcher", 40000), R("TestPropMatcherRegexOnly", 40000), R("TestPropPlaces", 4000), R("TestPropAggCache", 1500)],
    "thorough": [R("TestPropMatcher", 400000, shards=5, timeout=1500), R("TestPropMatcherRegexOnly", 400000, shards=4, timeout=1500),
                 R("TestPropPlaces", 40000, shards=5, timeout=1500), R("TestPropAggCache", 15000, shards=2, timeout=1500)],
}
