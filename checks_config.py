"""Per-property run specifications for /verif/check.

Each run spec: test (Go test function), kind (rapid|plain|fuzz), checks
(rapid.checks per shard), shards, timeout (s), optional steps/env/race/fuzztime.
"""

def R(test, checks, shards=1, timeout=600, **kw):
    d = {"test": test, "kind": "rapid", "checks": checks, "shards": shards, "timeout": timeout}
    d.update(kw)
    return d

def P(test, timeout=600, **kw):
    d = {"test": test, "kind": "plain", "timeout": timeout}
    d.update(kw)
    return d

def F(test, fuzztime, timeout=900, **kw):
    d = {"test": test, "kind": "fuzz", "fuzztime": fuzztime, "timeout": timeout}
    d.update(kw)
    return d

PROPS = {}
PENDING_REASON = {}

PROPS["C03"] = {
    "pkg": "c03", "level": "exploration",
    "rule": ("rapid draws a six-option filter (each option present with p~0.35-0.4; regex/notRegex from a grammar producing "
             "^literal+quantifier, top-level alternation, escaped dot + quantifier, groups, classes, mid anchors) and names "
             "sampled from the filter's own regex tree / literals then mutated; oracle = independent conjunction "
             "HasPrefix/!HasPrefix/Contains/!Contains/regexp.Match/!regexp.Match on the NAME. Sub-checks: matcher (direct), "
             "matcher_regex_only, places (same filter installed as blacklist entry, route filter, destination filter of "
             "sendAllMatch/sendFirstMatch, via modRoute/modDest, aggregation with/without cache and dropRaw, route and "
             "destination filter as seen by aggregation output; values and timestamps drawn from the filter literal alphabet), "
             "agg_cache (lookup histories with clock jumps >=100*wait and ticks). Non-trivial: >=2 options set, a regex with a "
             "quantifier or alternation in its first atoms, and a name on which the set options disagree (agg_cache: history "
             "with a cache hit and an eviction). Distinct = hash of (filter, name[s], place/history)."),
    "level_text": ("Generated-input search (rapid) against an independent reference predicate: ~300k filter x name evaluations per quick run, "
                   "at matcher.Match and at every place a filter is installed in a real table; holds on everything generated, not a proof."),
    "level_note": ("Trusts Go's regexp as RE2 reference; places are observed through capture routes, per-destination drop counters and the "
                   "aggregator output channel (mocked clock). Names are printable ASCII without whitespace."),
    "technique": "property-based testing (rapid): reference-model oracle + metamorphic value/timestamp variation + stateful cache histories",
    "assumptions": ["Go's regexp package is the reference RE2 implementation", "names are non-empty printable ASCII without whitespace"],
    "quick": [R("TestPropMatcher", 40000), R("TestPropMatcherRegexOnly", 40000), R("TestPropPlaces", 4000), R("TestPropAggCache", 1500), R("TestPropManyNamesAggregation", 4)],
    "thorough": [R("TestPropManyNamesAggregation", 30, shards=2, timeout=1500), R("TestPropMatcher", 400000, shards=5, timeout=1500), R("TestPropMatcherRegexOnly", 400000, shards=4, timeout=1500),
                 R("TestPropPlaces", 40000, shards=5, timeout=1500), R("TestPropAggCache", 15000, shards=2, timeout=1500),
                 F("FuzzMatcher", "120s")],
}

PROPS["C09"] = {
    "pkg": "c09", "level": "exploration",
    "rule": ("rapid state machine over one nsqd.DiskQueue on tmpfs: put(m) with |m| in {0, tiny, around maxBytesPerFile-4, up to 3 segments; 1 in 60: 64 KiB .. 3 MiB}, "
             "get (or, when the model is empty, a negative check that nothing arrives), close+reopen; maxBytesPerFile in {1..1000}, "
             "syncEvery in {1..8, never}; the periodic-sync timer is one hour (syncs count-driven, two histories in three) or 2 ms with an extra operation 'idle' "
             "that lets several timer periods pass in whatever state the queue is in (one in three); backlog (own sub-check): segments of 100 KB - 1 MB, thousands of small messages of a fixed or varied size, a consumer that lags by "
             "up to hundreds of KB, clean reopen at drawn points, full drain at the end. oracle = slice model: every get returns the model head byte-for-byte, Depth() equals the model "
             "length after every put / completed get / reopen, final reopen drains to exactly the model and then nothing. Non-trivial: "
             "history with a reopen while messages are pending, a reopen directly after a put that rolled a segment, or a message larger "
             "than a segment. Distinct = hash of the operation history (lengths included)."),
    "level_text": "Model-based stateful property testing of the real DiskQueue on a real filesystem (tmpfs); thousands of generated histories, holds on all generated.",
    "level_note": "syncTimeout fixed at 1h so syncs are count-driven; 'at rest' is observed via the verif-tagged delivered-done callback (the queue advances its read position asynchronously after handing a message over).",
    "technique": "property-based testing (rapid state machine) against a reference FIFO model",
    "assumptions": ["tmpfs behaves like the spool filesystem for create/write/rename/remove", "single consumer"],
    "quick": [R("TestPropFIFO", 2500, steps=40), R("TestPropBacklog", 60)],
    "thorough": [R("TestPropFIFO", 30000, shards=12, steps=60, timeout=2400), R("TestPropBacklog", 1500, shards=4, timeout=2400)],
}

PROPS["C08"] = {
    "pkg": "c08", "level": "fault_enumeration",
    "rule": ("rapid generates histories over {put(m), get, clean close+reopen, crash+reopen-from-an-earlier-crash-point} for "
             "maxBytesPerFile in {1..200}, syncEvery in {1..8, never}, |m| from 0 to 3 segments; the verif-tagged callback fires on the "
             "queue's I/O goroutine after EVERY filesystem mutation (segment open/write/fsync, meta tmp create/write, meta rename, segment "
             "remove, bad-file rename, rollover) and after every hand-over to the consumer; at each callback the directory is snapshotted "
             "with exact counters. Afterwards EVERY snapshot of the history is recovered (restore, NewDiskQueue, put sentinel, drain to "
             "sentinel) and the recovered run must be E[a:b) with handedAtLastSync<=a<=handedAtCrash, b>=writtenAtLastSync, byte-exact, "
             "no hang. One evaluation = one (history, crash point) pair. Non-trivial: crash point strictly inside an operation (not its "
             "last callback), after at least one segment rollover and one delivery. Distinct = hash(history, point index, label)."),
    "level_text": ("Crash points are enumerated exhaustively per generated history (every filesystem mutation of every operation, incl. "
                   "repeated crashes and crashes during recovery); histories and configurations are sampled by rapid."),
    "level_note": ("Crash model = process death between two filesystem operations (completed operations visible, nothing torn), which is the "
                   "property's model; power-loss reordering of un-fsynced data is out of scope. Enumeration is per sampled history, not over all histories."),
    "technique": "property-based testing (rapid histories) + exhaustive fault injection at every filesystem-operation boundary via tagged callback",
    "assumptions": ["tmpfs stands in for the spool filesystem", "syncTimeout=1h so syncs are count-driven and the I/O loop is a function of the history"],
    "quick": [P("TestRegress"), R("TestPropCrashRecovery", 200, steps=30)],
    "thorough": [P("TestRegress"), R("TestPropCrashRecovery", 1500, shards=16, steps=40, timeout=3000)],
}

PROPS["C10"] = {
    "pkg": "c10", "level": "exploration",
    "rule": ("rapid state machine over one aggregator built with aggregator.NewMocked (injected clock, harness-owned tick channel, inBuf=0 so "
             "AddMaybe+Snapshot is a barrier): actions point(name,val,ts) with ts drawn relative to the clock (current/previous buckets, exactly "
             "now-wait, now-wait+-1, far past, future, relative to the last tick), advance(dt in {0,1,interval,wait,...}), tick(t<=now, "
             "non-decreasing); all ten functions, interval 1..60, wait 0..120, cache on/off, rules with and without capture groups, output keys padded to every length from a few bytes to ~150, values "
             "dyadic rationals. Oracle = reference aggregator written from the statement/docs (bucket = (expanded name, ts-ts%interval); join "
             "existing bucket or open iff start>now-wait else too old; tick emits start<=t-wait ascending), compared after every tick as a "
             "multiset (tolerance 1.5e-6), plus ascending order, six-decimal formatting, never-twice set, TooOld counter after every point. "
             "Non-trivial: history with >=2 buckets open at once AND an out-of-order point AND a point at the cutoff AND a late point for a "
             "closed bucket. Distinct = hash(rule, full history). concurrent_points: 2-8 goroutines hand 20-1500 points each (1-1000 series, four buckets, one point in ten not matching) to ONE aggregation (sum/count/min/max, cache, dropRaw and inbox size drawn) at the same time; every AddMaybe must answer consumed = dropRaw and filter verdict, the in-counter must equal the number of matching points and the emitted lines must be exactly the function of the points per (output name, bucket)."),
    "level_text": "Model-based stateful testing with a harness-owned clock: every arrival/tick interleaving generated is deterministic and compared with a reference aggregator; holds on all generated histories.",
    "level_note": "Go regexp Expand trusted for output-name expansion; clock non-decreasing and ticks <= now, as the statement assumes; derive ties at the extreme timestamps accept any tied value.",
    "technique": "property-based testing (rapid state machine) against a reference aggregator model",
    "assumptions": ["non-decreasing clock", "tick times never exceed the clock"],
    "quick": [R("TestPropAggregator", 4000, steps=60), R("TestPropConcurrentPoints", 300)],
    "thorough": [R("TestPropConcurrentPoints", 6000, shards=2, timeout=2400), R("TestPropAggregator", 60000, shards=16, steps=80, timeout=2400)],
}

PROPS["C12"] = {
    "pkg": "c12", "level": "exploration",
    "rule": ("rapid draws a byte stream of 0-12 lines (empty, short, around 4 KiB / 8 KiB, just below 64 KiB, CR inside a line; terminators LF or CRLF; "
             "last line with or without terminator) and a segmentation (none, one-byte reads, fixed sizes incl. 4095/4096/4097, random cuts; for "
             "streams <= 64 bytes EVERY single cut position), and an end mode (0,EOF / data+EOF / data+timeout error / 0,timeout). Entry points: "
             "input.NewPlain(d).Handle(scripted reader); Listener.HandleConn over net.Pipe wrapped in input.NewTimeoutConn; Listener.HandleData "
             "per datagram; consumeAMQP through the verif-tagged delivery setter (bodies with lines <= 4096 bytes incl. terminator). Oracle: "
             "reference split (cut at LF, strip one trailing CR, keep a final unterminated piece); dispatcher arguments copied at call time must "
             "equal the reference's non-empty lines, in order, each once. interleaved_streams: 2-3 chunked streams fed CONCURRENTLY to ONE "
             "input.Plain (as the listener does with its connections and datagrams) through channel-gated readers; the harness draws the "
             "schedule (which stream gets its next chunk; a chunk is fully consumed before the next grant); every stream's lines must come "
             "out exactly as its own reference split, no line may mix bytes of two streams. Non-trivial: >=2 lines and >=1 cut strictly inside a line (datagram / "
             "AMQP: >=2 lines over >=1 message). Distinct = hash(stream, cuts, end mode). slow_sender: a started TCP listener with a read timeout T of 0.6-1 s; a client sends 2-6 lines in 3-5 pieces cut inside lines with pauses of 0 / 0.3 / 0.45 / 0.7 T between them (no pause reaches T); the relay must process exactly the lines of the stream; a case whose measured gap exceeded 0.85 T (harness delayed) is discarded."),
    "level_text": "Generated streams x segmentations (exhaustive cut positions for short streams) against a reference line splitter at all four entry points; holds on everything generated.",
    "level_note": "Lines longer than the supported limits (64 KiB incl. terminator on TCP/UDP, 4096 bytes incl. terminator on AMQP) are outside the generated domain; empty lines may be dispatched or skipped.",
    "technique": "property-based testing (rapid): reference-model oracle + metamorphic invariance under segmentation; native go fuzz target in the thorough tier",
    "assumptions": ["net.Pipe stands in for a TCP connection (real sockets are used by C05-C07)"],
    "quick": [R("TestPropPlainChunking", 3000), R("TestPropListenerConn", 600), R("TestPropListenerDatagram", 2000), R("TestPropAMQPBodies", 1500), R("TestPropInterleavedStreams", 3000), R("TestPropRealUDPSocket", 400), R("TestPropSlowSender", 12)],
    "thorough": [R("TestPropSlowSender", 60, shards=2, timeout=2400), R("TestPropPlainChunking", 40000, shards=8, timeout=2400), R("TestPropListenerConn", 6000, shards=3, timeout=2400),
                 R("TestPropListenerDatagram", 40000, shards=2, timeout=2400), R("TestPropAMQPBodies", 20000, shards=2, timeout=2400),
                 R("TestPropInterleavedStreams", 40000, shards=2, timeout=2400), R("TestPropRealUDPSocket", 3000, shards=3, timeout=2400), F("FuzzPlainChunking", "120s")],
}

PROPS["C13"] = {
    "pkg": "c13", "level": "exploration",
    "rule": ("rapid draws 1-4 frames of 0-8 items each: names (ASCII, tagged, metrics2.0, non-ASCII), tuple or list containers at both levels, "
             "timestamps/values as int (1/2/4-byte, >2^31, >2^63, negative, python2 long), float, str/unicode, and structurally invalid items "
             "(arity 1/3, name not a string, data not a sequence, None/dict scalars). Every frame is serialised by CPython itself (python3 "
             "protocols 0-4; python 2.7 pickle and cPickle protocols 0-2 and further python3 versions when present on the image), framed with "
             "a 4-byte BE length, and fed to input.NewPickle(d).Handle through a reader cut at every byte / random cuts / fixed sizes. Oracle "
             "(differential): the dispatcher events must equal, item for item, what input.NewPlain produces for the equivalent text lines (int "
             "and str fields verbatim, float values with six decimals, float timestamps within <1s), each invalid item exactly one IncNumInvalid. "
             "malformed_frame: wrong length / truncation / bad prefix / garbage after 0-3 good frames: no panic, earlier frames fully processed, "
             "nothing invented. Non-trivial: >=2 items mixing >=2 scalar encodings, in >=2 frames or cut inside. Distinct = hash(interpreter, frames, bytes). concurrent_connections: 2-6 connections at the same time on ONE handler object (as the listener uses it), each a CPython-made sequence of well-formed frames (protocols 0-4, 1-60 items, repeated 1-100 times, chunked reads) with names carrying the connection number: every connection's datapoints must come out complete, in order, none counted invalid, none invented."),
    "level_text": "Differential property testing against the plain-text path on frames produced by real CPython picklers (several versions), thousands of generated lists; holds on all generated.",
    "level_note": "Python 3 bytes names, bools and NaN/Inf floats are outside the generated domain; whether a malformed frame yields an error value or nil is recorded, not asserted (the connection ends either way).",
    "technique": "property-based testing (rapid): differential oracle (pickle path vs plain path) on CPython-generated pickles; segmentation metamorphic",
    "assumptions": ["CPython's pickle module defines the wire format", "python interpreters present on the image"],
    "quick": [R("TestPropPickleVsPlain", 3000), R("TestPropMalformedFrame", 1500), R("TestPropConcurrentConnections", 60)],
    "thorough": [R("TestPropConcurrentConnections", 1000, shards=2, timeout=2400), R("TestPropPickleVsPlain", 40000, shards=12, timeout=2400), R("TestPropMalformedFrame", 20000, shards=4, timeout=2400)],
}

PROPS["C15"] = {
    "pkg": "c15", "level": "exploration",
    "rule": ("rapid draws 1-8 destinations with distinct (host, instance) pairs (IPv4 literals and DNS-like names, with/without port and instance), "
             "a permutation of them, and 50-300 metric names plus TARGETED names (a precomputed name for every 16-bit ring position) placed "
             "exactly on, just before and just after every position collision between different nodes, beyond the last ring entry (wrap-around) "
             "and at positions 0/65535. hasher_vs_carbon: route.NewConsistentHasher on destinations built by destination.New must agree, key by "
             "key, with a Go re-implementation of carbon 0.9.x ConsistentHashRing which is itself cross-checked on every case against a direct "
             "transcription run by CPython (pyhelpers/carbon_ring.py); the permuted listing must agree too. route_assign_churn: a real "
             "ConsistentHashing route with real destinations on refusing loopback addresses; which destination's drop counter moves identifies "
             "the receiver of each line (exactly one), compared with the reference; then 1-4 membership changes through (*ConsistentHashing).Add / "
             "DelDestination / UpdateDestination(addr=...) (the last re-points a destination to a listening loopback endpoint with a fresh "
             "instance, as modDest does; a connected destination is observed at its endpoint): after every change the assignment must again equal "
             "the reference ring of the destinations now configured; after add only keys landing on the new node moved, after remove only keys the "
             "removed node owned, after re-pointing only keys of the old or the new node. concurrent_lookup: 2-8 goroutines look up / dispatch "
             "50-1500 fresh keys each at the same time, first at the hasher (every answer compared with the reference ring), then through the real "
             "route (per-destination hand-off counts must equal the reference ring's). Non-trivial: "
             "ring with >=1 collision and a key on a collided position or wrapping (churn: >=2 nodes and >=1 key moved). Distinct = hash(nodes, keys)."),
    "level_text": "Differential property testing against an independent re-implementation of Carbon's ring (cross-checked with CPython) plus metamorphic relations (order independence, minimal disruption); holds on all generated rings/keys.",
    "level_note": "Carbon 0.9.x ring (no collision bumping); the >=1.0 variant is order-dependent and cannot be what 'in any order' means. DNS-like hosts are only exercised at hasher level (no resolver offline); the route-level check uses loopback literals.",
    "technique": "property-based testing (rapid): differential oracle vs re-implemented and CPython-run carbon ring; metamorphic add/remove/permutation relations",
    "assumptions": ["carbon 0.9.x lib/carbon/hashing.py is the reference"],
    "quick": [R("TestPropHasherVsCarbon", 400), R("TestPropRouteAssignAndChurn", 150), R("TestPropConcurrentLookup", 150)],
    "thorough": [R("TestPropHasherVsCarbon", 5000, shards=8, timeout=2400), R("TestPropRouteAssignAndChurn", 2000, shards=6, timeout=2400), R("TestPropConcurrentLookup", 4000, shards=2, timeout=2400)],
}

PROPS["C16"] = {
    "pkg": "c16", "level": "exploration",
    "rule": ("pickle_out: rapid draws lines (untagged / 1-4 tags incl. invalid ones, every float spelling incl. hex, NaN, Inf, -0, out-of-range, "
             "near-misses; timestamps in and out of uint32, non-integer, negative) -> destination.ParseDataPoint + destination.Pickle; the payload "
             "is unpickled by CPython itself (python3 and python 2.7 when present) and must be [(name,(int ts, float value))] equal to "
             "strconv.ParseFloat / ParseUint of the tokens (NaN- and sign-aware); unrepresentable lines must be refused. metricdata: rapid draws "
             "a storage-schemas file (0-6 rules + mandatory .*: unanchored, ^, $, ^...$, tag-sensitive patterns; priorities absent/equal/different/"
             "negative; old and new retention syntax; comments; spacing) and lines; the record built by the verif-tagged parseMetric wrapper (the "
             "conversion shared by grafanaNet and kafkaMdm) must carry name = text before ';', sorted tags, value, time, org id and interval = "
             "first retention of the rule chosen by a reference selector (priority desc, then file order, first regexp match on name or "
             "name;sorted-tags). Non-trivial (metricdata): >=2 rules match and a $-anchored or tag-sensitive non-default rule decides; "
             "(pickle_out): the line is representable. Distinct = hash(line[, schemas text]). pickle_siblings: 2-3 pickle-mode destinations of one sendAllMatch route, each with its own loopback endpoint, one of them throttled, iobuf 64 B..64 KB (frames straddle the buffer), 2 000-20 000 lines: every endpoint's stream must split into length-prefixed pickles each decoding to exactly one handed-in line (name, int timestamp, float value), in hand-off order, none twice; absent ones only with slow-connection drops counted."),
    "level_text": "Round-trip through a real external decoder (CPython pickle.loads) and reference-model comparison for schema selection over generated files and lines; holds on all generated.",
    "level_note": "Names are ASCII (CPython 3 refuses non-ASCII byte strings by default); the MetricData conversion is checked at parseMetric (white-box wrapper); real grafanaNet POST bodies are decoded in C17.",
    "technique": "property-based testing (rapid): round-trip via CPython unpickler + reference storage-schemas selector",
    "assumptions": ["CPython's unpickler is the reference decoder", "metrictank's MetricData.Validate defines which tags are invalid"],
    "quick": [R("TestPropPickleOut", 6000), R("TestPropMetricData", 6000), R("TestPropPickleSiblings", 40)],
    "thorough": [R("TestPropPickleOut", 60000, shards=5, timeout=2400), R("TestPropMetricData", 100000, shards=8, timeout=2400), R("TestPropPickleSiblings", 400, shards=3, timeout=2400)],
}

PROPS["C19"] = {
    "pkg": "c19", "level": "exploration",
    "rule": ("rapid draws 1-4 fresh series (unique prefix per case; some points sent with one leading dot; name shapes: plain / tagged / "
             "metrics2.0 / 160-byte / one a prefix of another, or all series sharing a 320-byte prefix and differing in the last bytes, or the same "
             "name with different tag values; in 2 of 6 cases a crowd of 300 or 3000 other names, one point each, is dispatched between the "
             "first and the second half of every goroutine's points), per series a timestamp sequence "
             "(increasing / decreasing / with repeats / from {0,1,...,2^32-1}), and deals the points among 1-8 goroutines that dispatch "
             "concurrently into a real table with validate_order on and a capture route. Each Dispatch is an operation with call/return time "
             "and observed result (forwarded or not, identified by a unique value field). Oracle: per series the history must be linearizable "
             "w.r.t. a max-register 'accept iff ts > current; current := ts' (porcupine), accepted timestamps pairwise distinct, a positive "
             "timestamp newer than all other points of its series never rejected, out_of_order counter delta = number rejected, no invalid, "
             "every rejected series visible in Table.Bad() with the not-newer reason, rejected points reach no route. many_names: 20 000 - 300 000 distinct "
             "names from a drawn template (hex ids, numbered hosts, shared prefix or shared suffix; consecutive or scattered ids), each sent "
             "once with a timestamp OLDER than that of every name before it: every one of these first points must be accepted (whatever makes "
             "two names share state -- a short hash, a bounded or evicting table, a key that drops part of the name -- rejects some), then "
             "equal / older / newer probes on names from the beginning, middle and end, against a per-name model. Non-trivial: a series "
             "touched by >=2 goroutines with an equal or decreasing timestamp (many_names: >= 100 000 names). Distinct = hash(goroutines, observed history)."),
    "level_text": "Generated concurrent histories checked for linearizability against a sequential max-register specification, plus a -race run; interleavings are sampled by the Go scheduler.",
    "level_note": "The critical section is tiny, so schedules that expose a missing lock are rare without -race; the thorough tier and the quick -race run are the stronger signal for lock removal.",
    "technique": "property-based testing (rapid) of concurrent histories + linearizability checking (porcupine) against a max-register model; race detector",
    "assumptions": ["timestamps are integers within uint32", "wall-clock monotonic time orders call/return events"],
    "quick": [R("TestPropOrdered", 2500), R("TestPropOrdered", 400, race=True, env={"GOMAXPROCS": 8}), R("TestPropManyNames", 6)],
    "thorough": [R("TestPropOrdered", 20000, shards=8, timeout=2400), R("TestPropOrdered", 20000, shards=4, timeout=2400, env={"GOMAXPROCS": 2}),
                 R("TestPropOrdered", 4000, shards=4, race=True, timeout=2400), R("TestPropManyNames", 30, shards=4, timeout=2400)],
}

PROPS["C01"] = {
    "pkg": "c01", "level": "exploration",
    "rule": ("rapid draws a table by construction: 0-3 blacklist entries, 0-3 rewriters (the same rule may appear twice; 1 name in 6 carries a leading dot; literal with max in {-1,0,1,2,5}, /regex/ with ${n} templates, "
             "not-clauses), 0-3 aggregations (mocked clock, some drop-raw, cache on/off), 1-6 routes in order, each a capture route or a real "
             "sendAllMatch / sendFirstMatch / consistentHashing route with 1-4 real destinations (refusing loopback address, spool off, so every "
             "hand-off is counted in its conn_down_no_spool counter); every route and destination gets a six-option filter from the shared "
             "generator; then 1-12 valid lines whose names are sampled from the table's own filters. Oracle: reference dispatcher written from "
             "the statement (blacklist -> rewrite -> drop-raw consumption by complete filter -> routes in order on the rewritten name -> "
             "all-match / first-match over destinations), compared in both directions with the exact line sequence each capture route "
             "received, the per-destination counter deltas after a Flush barrier, and the blacklist / unroutable / in / invalid counter deltas. "
             "runtime_filter_change: 2-10 names are dispatched through a generated table, then 1-3 times a route's or a destination's filter is "
             "modified at run time (UpdateRoute / UpdateDestination with a generated filter) and the SAME names are dispatched again: every delivery and "
             "counter must follow the filters as they are now. "
             "concurrent_senders: the same tables and oracle with 8-80 lines per case handed in by 2-8 goroutines at once, each from its own reused "
             "buffer (several input connections); capture routes compared as multisets. In both sub-checks every slice a capture route was handed "
             "must still read the same at the end of the case. "
             "Non-trivial: >=2 routes of which one matches and one does not, or a first-match route with >=2 matching destinations, or a "
             "blacklist/drop-raw hit on a line a route would have matched. Distinct = hash(table, lines)."),
    "level_text": "Reference-model property testing of the real Table with real routes and destinations; thousands of generated tables x lines; holds on all generated.",
    "level_note": "kafkaMdm / pubsub / cloudWatch routes cannot be constructed offline (constructors need their services) and are outside the generated tables; grafanaNet is covered by C17. Consistent-hashing destination choice itself is C15's subject (here: exactly one destination).",
    "technique": "property-based testing (rapid): reference dispatcher model vs capture routes and per-destination counters",
    "assumptions": ["Go regexp is the RE2 reference", "names valid at the default validation level (printable ASCII, no tags)"],
    "quick": [R("TestPropDispatch", 2500), R("TestPropConcurrentSenders", 700), R("TestPropRuntimeFilterChange", 800)],
    "thorough": [R("TestPropDispatch", 20000, shards=12, timeout=2400), R("TestPropConcurrentSenders", 8000, shards=3, timeout=2400), R("TestPropRuntimeFilterChange", 10000, shards=2, timeout=2400)],
}

PROPS["C04"] = {
    "pkg": "c04", "level": "exploration",
    "rule": ("forwarded_line: rapid draws 0-4 rewriters (a rule may be listed twice and is then applied twice; literal old/new with max in {-1,0,1,2,5}, /regex/ rules with ${n}/$n templates, not-clauses as "
             "substring and /regex/, names with repeated occurrences of old) and 1-8 valid lines with arbitrary whitespace layout (leading / "
             "trailing / multiple separators, tab, vertical tab) and value / timestamp tokens in many numeric spellings; the table has two capture "
             "routes, a real sendAllMatch route with a LIVE loopback endpoint between them, and a buffered aggregation (inbox 500) so messages are "
             "still queued after Dispatch returns. Every line is passed in ONE reused backing array that the harness overwrites with '#' right "
             "after Dispatch returns. Oracle: expected line = reference rewriter (from docs/rewriting.md) + ' ' + value token + ' ' + timestamp "
             "token byte-for-byte at both capture routes, in the endpoint's byte stream (completion by sentinel line) and as the aggregation's "
             "output names; the caller's buffer is unchanged by the call; all recipients identical; every retained slice still equals its "
             "at-receipt copy at the end. rewriter: rewriter.RW.Do vs the reference on names with repeated occurrences. "
             "input_senders: 2-4 connections served at the same time by ONE plain-text input handler (3-400 lines each, reads of 1..4096 bytes) into a table with "
             "0-3 rewriters: the multiset of lines the route receives must equal rewritten name + value + timestamp of every line written (nothing lost, twice, or "
             "mixed from two senders). "
             "lagging_aggregation: one aggregation (sum/count/max, dropRaw and cache drawn, inbox 4..2000) whose worker is held inside a flush by an unread "
             "output channel while a burst of 2-300 lines is handed in, each from the same caller buffer that is overwritten as soon as Dispatch returns; "
             "after the consumer comes back the aggregation's output must be exactly the function of the values handed in per (rewritten) name, and the "
             "route must have the raw lines it is due. Non-trivial: a rewriter "
             "changed the name, or non-canonical whitespace, or the buffer was reused while aggregator messages were pending. Distinct = hash(rewriters, input lines)."),
    "level_text": "Reference-model + byte-equality property testing through the real table, a real destination/TCP endpoint and a real aggregator, with adversarial reuse of the input buffer; holds on all generated.",
    "level_note": "A name that arrived with one leading dot may be forwarded with or without it (the statement does not fix that). Go regexp Expand is trusted for ${n} expansion.",
    "technique": "property-based testing (rapid): reference rewriter model, round-trip through a loopback endpoint, buffer-scribbling metamorphic check",
    "assumptions": ["loopback TCP delivers bytes in order", "sentinel line marks completion (single FIFO writer per connection)"],
    "quick": [R("TestPropForwardedLine", 1500), R("TestPropLaggingAggregation", 1500), R("TestPropInputSenders", 600), R("TestPropRewriter", 20000), R("TestPropManyNamesRewriter", 4)],
    "thorough": [R("TestPropForwardedLine", 12000, shards=10, timeout=2400), R("TestPropLaggingAggregation", 30000, shards=2, timeout=2400), R("TestPropInputSenders", 8000, shards=2, timeout=2400), R("TestPropRewriter", 300000, shards=4, timeout=2400), R("TestPropManyNamesRewriter", 30, shards=2, timeout=2400)],
}

PROPS["C11"] = {
    "pkg": "c11", "level": "exploration",
    "rule": ("rapid draws a real table with strict input validation, 0-2 blacklist entries and 0-2 rewriters chosen to match AGGREGATE names, 1-4 real "
             "aggregations (mocked clock, writing into table.In like in production) from templates that are self-matching (output name matches the "
             "rule's own filter), chained by name (A's output matches B, incl. a 3-cycle), match-everything, or produce names that strict validation "
             "would reject; optional extra filter options; some drop-raw; 1-4 capture routes with filters; 1-2 rounds of 1-20 raw lines followed by "
             "a tick of every aggregation (barriers: aggregator Snapshot, then sentinel pairs through table.In). Oracle = reference composition: raw "
             "pipeline of C01 (drop-raw consumption by the complete filter) + reference aggregator of C10 per rule; aggregate lines are routed by "
             "the reference filter on their NAME and never validated, blacklisted, rewritten or aggregated again: capture routes must hold exactly "
             "raw survivors (in order) + aggregate outputs (multiset), counters in/invalid/blacklist/unroutable must match, and a further tick of "
             "every rule after the flush must produce nothing (quiescence). Non-trivial: an emitted aggregate name matches some rule's complete "
             "filter (self/chain feeding would fire), or a drop-raw rule whose cheap options pass while its regex/notRegex rejects. Distinct = hash(table, history)."),
    "level_text": "Reference-composition property testing of the real table + real aggregators wired through table.In, with loop-prone rule sets generated on purpose; holds on all generated.",
    "level_note": "Aggregator arithmetic and bucket timing are C10's subject (here every bucket is open when fed and closed by one far tick); only capture routes are attached.",
    "technique": "property-based testing (rapid): reference composition (dispatcher model + aggregator model), quiescence invariant",
    "assumptions": ["sentinel pairs through the unbuffered table.In are a completion barrier (one consumer goroutine)"],
    "quick": [R("TestPropAggregateBypass", 2500)],
    "thorough": [R("TestPropAggregateBypass", 20000, shards=16, timeout=2400)],
}

PROPS["C02"] = {
    "pkg": "c02", "level": "exploration",
    "rule": ("(in half of the cases the table also holds a blacklist entry: validity is decided first, a VALID line with a blacklisted name is counted as blacklisted and goes nowhere) rapid draws byte strings shaped like lines: 0-5 fields separated by space / tab / VT / CR / double spaces, names from a grammar (legacy names, "
             "leading dot, consecutive dots, illegal characters, NUL and 8-bit bytes, ';tag=value' appendices valid and invalid in each way, "
             "metrics2.0 '=' and '_is_' names with / without unit and mtype, mixed styles, version-detection edge cases), values and timestamps "
             "from numeric spellings and near-misses, plus ~10% random bytes; the validation levels are drawn as CONFIGURATION TEXT (toml decoded "
             "into cfg.NewConfig(), either key present or omitted) for all 3x2 combinations. Oracle: independent reference validator written from "
             "docs/validation.md (self-checked on every line against carbon20.ValidatePacket; a disagreement is a harness error): forwarded to the "
             "capture route and the catch-all aggregation iff valid, in-counter delta = lines, invalid-counter delta = rejected, every rejected "
             "3-field line visible in Table.Bad() under its name with the LAST rejected text and a reason. level_names: the name->level mapping "
             "and rejection of unknown level names. Non-trivial: a 3-field line whose verdict differs between level combinations, or an invalid "
             "line with a valid name. Distinct = hash(levels, lines)."),
    "level_text": "Reference-validator property testing through the real table configured from configuration text; tens of thousands of generated lines x all six level combinations; holds on all generated.",
    "level_note": "The per-character rules live in the third-party carbon20 library: the reference is cross-checked against it so a rule disagreement is never reported as a violation; what is under test is the relay's use of it (levels from config, forwarding, counting, reporting).",
    "technique": "property-based testing (rapid): reference validator oracle, counters and bad-metrics report invariants; native go fuzz target in the thorough tier",
    "assumptions": ["carbon20.ValidatePacket defines name validity per level", "bad-metrics records are handed over asynchronously (polled up to 10 s)"],
    "quick": [R("TestPropValidity", 3000), R("TestPropLevelNames", 300)],
    "thorough": [R("TestPropValidity", 40000, shards=14, timeout=2400), R("TestPropLevelNames", 2000), F("FuzzDispatchValidity", "150s")],
}

PROPS["C18"] = {
    "pkg": "c18", "level": "exploration",
    "rule": ("parked_dispatch: rapid draws a small real table (0-3 blacklist entries, rewriters, aggregations; 2-5 routes: capture or real sendAllMatch / "
             "sendFirstMatch with 1-4 real destinations or consistentHashing with 1-7 (expected owner: carbon's ring over the destinations of the "
             "state in question), a park point (after the table's snapshot load; inside capture route i; after carbon route "
             "r's snapshot load) and 1-3 admin operations (add/delete route, blacklist entry, rewriter, aggregation, destination; modRoute; modDest; "
             "when parked inside a carbon route, half of them work on that very route). A panic of the parked dispatcher is a violation. "
             "A dispatcher is started and parked at the point (verif-tagged after-load callbacks), the operation runs to completion in its own "
             "goroutine, the dispatcher resumes. Oracle: the parked metric's deliveries (capture routes, per-destination counters incl. drained "
             "deleted destinations, aggregation in-counters, blacklist/unroutable counters) equal the reference outcome under the table BEFORE or "
             "under the table AFTER, never a mixture; a metric dispatched after the operation returned sees the new table only; Table.Snapshot() "
             "equals the model. admin_history: rapid state machine of admin operations (known/unknown keys, indexes valid / = len / > len, bad "
             "options) vs a model of the four lists, Snapshot() compared after every step, out-of-range rejected with an error and no change. "
             "concurrent_admins: four admin goroutines change the table at the same time, each the only writer of its own list (routes by key; blacklist, "
             "rewriters, aggregations by index; aggregations hold pending points so that deleting one has something to flush), 5-40 changes each: every "
             "change must be accepted and the final Snapshot() must equal every list's own sequence of changes (nothing acknowledged is undone by another connection). "
             "concurrent_churn: 2-6 dispatcher goroutines send unique metrics while an admin goroutine adds/deletes volatile routes, blacklist "
             "entries, rewriters and destinations around permanent catch-all capture routes and a permanent destination: each permanent entity "
             "must get every metric exactly once (also run under -race). Non-trivial (parked): the dispatcher reached the park point and the "
             "operation deleted a non-last element; (history): a rejected operation and a non-last delete. Distinct = hash(table, point, op)."),
    "level_text": "Harness-owned schedules (a dispatcher parked after it loaded a snapshot, one admin operation run to completion, resume) compared with the reference outcome before/after; sequential model of the table view; race-detector stress.",
    "level_note": "Park points are the places where a dispatcher can hold a previous snapshot (after the table load, inside each capture route, after each carbon route's load); a hand-off to an entity deleted by the operation is observed by draining its input. Liveness of a dispatcher against a deleted route is not asserted (not part of the statement).",
    "technique": "property-based testing (rapid): schedule-owning parked-dispatcher cases vs reference model; model-based admin histories; -race stress",
    "assumptions": ["the verif-tagged after-load callbacks mark every point where a configuration snapshot is taken by a dispatcher"],
    "quick": [R("TestPropParkedDispatch", 2500), R("TestPropAdminHistory", 600, steps=40), R("TestPropConcurrentAdmins", 2000), R("TestPropConcurrentChurn", 40),
              R("TestPropConcurrentChurn", 15, race=True)],
    "thorough": [R("TestPropParkedDispatch", 20000, shards=8, timeout=2400), R("TestPropAdminHistory", 8000, shards=2, steps=60, timeout=2400), R("TestPropConcurrentAdmins", 40000, shards=2, timeout=2400),
                 R("TestPropConcurrentChurn", 400, shards=3, timeout=2400), R("TestPropConcurrentChurn", 150, shards=2, race=True, timeout=2400)],
}

PROPS["C20"] = {
    "pkg": "c20", "level": "exploration",
    "rule": ("For each entry kind rapid draws an abstract entry with every documented option either OMITTED or set to a value distinct from every other "
             "option's value, every default and every other destination's values, renders it twice - as a TOML section (random key case, both "
             "sub/substr spellings, both present) fed through toml.Decode + cfg.InitTable, and as the equivalent command through imperatives.Apply "
             "- into a recording table.Interface, and reads every field back (exported fields, route.Snapshot(), GetDestination + the verif-tagged "
             "accessor for flush/reconn/connbuf/iobuf, (*GrafanaNet).Cfg). Oracle: both renderings give the same entry, equal to the model whose "
             "defaults are transcribed from the tables in docs/config.md. Sub-checks: blacklist_rewriter, aggregation (all ten functions; "
             "percentiles TOML-only; cache default not documented so only checked when set), carbon_route (3 types, 1-3 destinations, 10 numeric + "
             "2 boolean + 6 filter options per destination), grafananet_route, numeric_match_values (match options whose value is digits only - prefix=404, sub=500, regex=2019 - in addBlack / addRoute route and "
             "destination position, last or followed by further options / addAgg / modRoute / modDest: the command is either refused with an error or the entry "
             "holds exactly the written value), concurrent_commands (2-10 generated addRoute commands applied at the same instant from as many goroutines, as the admin "
             "port does for several connections: each must be accepted and yield the route its own text describes), route_sections (2-4 [[route]] tables of mixed types in ONE file: "
             "each must come out as its own addRoute command says, in file order -- what one section sets or omits must not leak into "
             "another; non-trivial there: a grafanaNet section omits a boolean that an earlier section sets). interpolation: config texts assembled from the documented "
             "variables (${VAR}, $VAR) and every other '$' shape ($1, ${1}, $10, ${name}, $$, $ before punctuation / at end, ${}, unterminated ${, "
             "near-miss names) run through the real readConfigFile (package-main driver) must come back with only the documented variables "
             "substituted. Non-trivial: >=3 options set and >=1 omitted; interpolation: text with both a documented variable and another '$' "
             "sequence. Distinct = hash(rendered entry / text)."),
    "level_text": "Differential (TOML vs command) + documentation-model property testing over generated option sets, and round-trip testing of configuration interpolation through the real package-main code; holds on all generated.",
    "level_note": "kafkaMdm / pubsub / cloudWatch routes cannot be constructed offline. Values avoid spaces and tokens the command tokenizer treats specially (true/false/bare numbers for string options). $VAR without braces is undocumented: substituted or left alone are both accepted.",
    "technique": "property-based testing (rapid): differential TOML-vs-command oracle + documentation-derived model; identity oracle for interpolation",
    "assumptions": ["docs/config.md tables are the documented defaults", "the package-main test driver calls the real readConfigFile"],
    "quick": [R("TestPropBlacklistAndRewriter", 1500), R("TestPropAggregation", 1200), R("TestPropCarbonRoute", 1200), R("TestPropGrafanaNetRoute", 150), R("TestPropRouteSections", 150), R("TestPropConcurrentCommands", 400), R("TestPropNumericMatchValues", 3000), R("TestPropInterpolation", 5000)],
    "thorough": [R("TestPropBlacklistAndRewriter", 20000, shards=2, timeout=2400), R("TestPropAggregation", 10000, shards=3, timeout=2400),
                 R("TestPropCarbonRoute", 10000, shards=6, timeout=2400), R("TestPropGrafanaNetRoute", 600, shards=3, timeout=2400), R("TestPropRouteSections", 1500, shards=2, timeout=2400), R("TestPropConcurrentCommands", 8000, shards=2, timeout=2400), R("TestPropNumericMatchValues", 50000, timeout=2400),
                 R("TestPropInterpolation", 200000, shards=2, timeout=2400)],
}

PROPS["C05"] = {
    "pkg": "c05", "level": "exploration",
    "rule": ("bufwriter (harness owns the schedule): destination.NewWriter over a recording writer, buffer size 1..4096, rapid state machine of Write(p) with "
             "|p| in {0, 1 (the newline), < size, exactly filling, overflowing by 0-2, up to 4x size} and Flush() at arbitrary points - exactly the call "
             "patterns Conn.HandleData produces; oracle: bytes at the sink are always a prefix of the bytes written, sink+buffered = written, "
             "Buffered+Available = size, after the final flush sink == input. healthy_conn (end to end): a real destination (destination.New + Run) "
             "connected to a healthy loopback endpoint; rapid draws iobuf 1..4096, connbuf 0..1000, flush period 1-50 ms, plain or pickle mode, 1-300 "
             "lines of 5 bytes .. 5x iobuf (around iobuf +-2), bursts separated by pauses; completion by unique sentinel lines. Oracle: the received "
             "stream split on LF (plain) / parsed as [4-byte BE length][pickle] frames each decoding to one (name,(ts,value)) (pickle) is a "
             "SUBSEQUENCE of the hand-off sequence (order kept, nothing torn, merged, duplicated or invented, each line terminated once) and "
             "#handed - #received == slow_conn drop counter delta. Non-trivial: (writer) a write straddling the buffer boundary AND a write longer "
             "AND one shorter than the buffer; (conn) a line longer and a line shorter than iobuf with a pause or a run longer than the flush period. "
             "Distinct = hash(parameters, op/length sequence). sibling_destinations: 2-3 destinations of one sendAllMatch route (plain or pickle each), every one with its own endpoint, one possibly throttled, in half of the cases after an earlier route with a connected destination carried traffic and was shut down at run time; 500-5000 lines; every endpoint's stream must be a subsequence of the lines handed to ITS destination, in order, whole, none foreign, absent ones only with slow-connection drops counted. pausing_endpoint (own sub-check, one case costs the pause): the endpoint stays connected but reads nothing for 0.5-8 s while 8-24 MB are handed in (16 KiB receive buffer, iobuf 256 B..2 MB), then reads on: same stream oracle - the received lines are a subsequence of the handed-off ones, in order, whole, none twice, and #absent = slow_conn delta."),
    "level_text": "Model-based testing of the buffered writer under every generated write/flush interleaving, plus generated end-to-end runs over real TCP with an exact subsequence + drop-accounting oracle; holds on all generated.",
    "level_note": "In the end-to-end layer the write/flush interleavings come from real timers and the scheduler; the writer layer covers them systematically. Pickle mode draws only representable lines (others are C16's subject). direction=out is recorded, not asserted.",
    "technique": "property-based testing (rapid): state-machine model of the writer; end-to-end subsequence/accounting oracle over loopback TCP with sentinel completion",
    "assumptions": ["loopback TCP delivers bytes in order", "one goroutine writes a connection in FIFO order (sentinel completion)"],
    "quick": [R("TestPropBufWriter", 20000, steps=40), R("TestPropHealthyConn", 120), R("TestPropSiblingDestinations", 30), R("TestPropPausingEndpoint", 4)],
    "thorough": [R("TestPropBufWriter", 300000, shards=4, steps=60, timeout=2400), R("TestPropHealthyConn", 500, shards=10, timeout=2400), R("TestPropSiblingDestinations", 400, shards=3, timeout=2400), R("TestPropPausingEndpoint", 25, shards=4, timeout=2400)],
}

PROPS["C06"] = {
    "pkg": "c06", "level": "exploration",
    "rule": ("rapid draws an endpoint behaviour (absent = refusing port; black hole = accepts, then never reads, 16 KiB receive buffer; throttled = reads 4-64 KiB "
             "per ms; healthy; closing = closes every connection after 1..3000000 bytes, drawn twice as often as the others), a route type (sendAllMatch / sendFirstMatch / consistentHashing), "
             "spooling on or off (with spooling on an absent endpoint is checked for boundedness only: what happens to the lines is C07), "
             "connbuf 0..1000, iobuf 16..65536, flush 1-100 ms, and 1-8 MB of traffic in lines of 30-200 bytes dispatched through a real table that "
             "also holds a healthy sibling capture route. Oracle: (a) boundedness - the dispatcher goroutine is watched; no hand-off may take longer "
             "than 2 s (typical: microseconds); a hit is re-run once and only a repeat is reported; the sibling route receives every metric; (b) "
             "steady-state accounting - endpoint healthy or throttled for the whole case: after completion (sentinel line through the same route) "
             "#handed = #received + slow_conn delta and every received line is intact; endpoint absent with spooling off: conn_down_no_spool "
             "delta = #handed after a Flush barrier. stuttering_endpoint (own sub-check, one case costs the pause): an endpoint that stays connected but reads nothing "
             "for 3-14 s under traffic far beyond every buffer and then resumes -- same oracle as a healthy one. "
             "silent_endpoint (own sub-check): an address that neither accepts nor refuses (listen backlog 0 with a full accept queue: SYNs are swallowed, "
             "every dial hangs) - either the destination's address from the start (spooling off: the 'down' steady state, conn_down_no_spool delta = #handed) or "
             "the target of an admin re-address request (UpdateDestination addr=...) issued in the middle of the traffic against a healthy endpoint, whose dial "
             "hangs for the rest of the case while the old connection stays up (bounded hand-offs, sibling route complete, #handed = #received + slow_conn). "
             "Transitions (closing) and the black hole are checked for boundedness only, as the "
             "statement says. Non-trivial: the traffic demonstrably exceeded the buffers (drop counters moved / traffic sent into a non-reading "
             "endpoint). Distinct = hash(scenario parameters)."),
    "level_text": "Generated fault scenarios against real destinations over loopback TCP with a latency watchdog and exact drop-accounting identities; liveness is sampled (bounded waiting), not proven.",
    "level_note": "A wall-clock bound is an inherently fragile oracle: it is three orders of magnitude above normal and only a repeated hit is reported. Receive buffers are set on the listening socket (shrinking an established connection's buffer makes the kernel drop in-flight data).",
    "technique": "property-based testing (rapid) with fault injection at the endpoint: latency-bound watchdog + accounting identities",
    "assumptions": ["loopback TCP", "the scheduler gives the dispatcher goroutine CPU time within the bound"],
    "quick": [R("TestPropBadEndpoint", 90), R("TestPropSilentEndpoint", 8), R("TestPropStutteringEndpoint", 4)],
    "thorough": [R("TestPropBadEndpoint", 150, shards=8, timeout=3000), R("TestPropSilentEndpoint", 40, shards=4, timeout=3000), R("TestPropStutteringEndpoint", 12, shards=4, timeout=3000)],
}

PROPS["C07"] = {
    "pkg": "c07", "level": "exploration",
    "rule": ("spool_outage: rapid draws a fault schedule of 2-6 phases (endpoint up|down alternating, incl. down before the first connect and repeated "
             "outages, 0-400 uniquely numbered lines per phase, pauses 0-120 ms, connection reset or orderly close), always ending up; a returning endpoint is sluggish in 1 of 4 cases (accepts, 4 KB receive "
             "window, reads nothing until its phase's lines have been handed: the backlog is drained into a busy connection); lines up to ~60 "
             "or ~320 bytes; tuning: reconn 20-100 ms, flush 5-50 ms, connbuf 1..30000, iobuf, spoolbuf 10..10000, maxbytesperfile 500..1M (segment rollovers), syncevery, "
             "spoolsleep / unspoolsleep, pacing (a pause every 1/3/8 lines). A real destination with spooling on talks to loopback endpoints "
             "re-created on the same port. Completion: poll until |distinct received| + slow_conn + slow_spool >= |handed| (60 s deadline, only "
             "ever paid by a failing run), then until the verif-tagged spool backlog accessor reports 0. Oracle: distinct lines never received "
             "<= slow_conn + slow_spool deltas; every received line was handed and is intact (an unterminated fragment only at the very end of a "
             "connection and only a prefix of a handed line); duplicates allowed; backlog drained; Shutdown returns. outage_under_load: a steady "
             "paced stream of 1500-6000 lines with the endpoint killed at a drawn point (10-45 %, reset or orderly close) and back at 55-90 %; "
             "iobuf from 8 bytes (smaller than a line: a dying connection fails inside Write) to 64 KB (fails in a flush), connbuf, flush 1-50 ms, "
             "reconn 10-100 ms, pacing, line length 30-230 bytes; same oracle (every case counts as non-trivial). shared_endpoint: 2-3 spooling destinations "
             "(different routes, or one route with different instances) pointing at ONE endpoint address with ONE spool directory, one or two outages; the identity must hold per "
             "destination on its own lines, nothing invented, every backlog drains (non-trivial: >=2 destinations whose down-phase lines arrived). Non-trivial: a line handed while down "
             "was received later (went through the spool) AND a line was seen by two connections (replayed from the redo buffer). Distinct = "
             "hash(schedule, tuning)."),
    "level_text": "Generated outage schedules against a real destination with a real disk spool over loopback TCP, exact loss-vs-counted-drops oracle; outage detection timing is the kernel's and scheduler's, so interleavings are sampled.",
    "level_note": "The harness cannot place an outage between two chosen instructions; outage_under_load raises the hit rate of the window around detection (it exposed the getRedo race, now fixed). Drain deadlines are liveness checks (60 s vs <1 s normal).",
    "technique": "property-based testing (rapid) with endpoint fault schedules: set-inclusion + accounting oracle over all connection incarnations",
    "assumptions": ["loopback TCP", "SO_REUSEADDR lets the endpoint come back on the same port"],
    "quick": [R("TestPropSpoolOutage", 30), R("TestPropOutageUnderLoad", 25, timeout=900), R("TestPropSharedEndpoint", 12, timeout=900)],
    "thorough": [R("TestPropSpoolOutage", 90, shards=8, timeout=3000), R("TestPropOutageUnderLoad", 120, shards=5, timeout=3000), R("TestPropSharedEndpoint", 80, shards=3, timeout=3000)],
}

PROPS["C17"] = {
    "pkg": "c17", "level": "exploration",
    "rule": ("rapid draws a scripted httptest server (a sequence of 0-8 per-request outcomes for the /metrics path out of {200, 400, 503 (error bodies: text, empty, JSON error object, a publish report with zeros, null, HTML), silence past the client "
             "timeout, connection reset}, followed by an all-200 tail; config posts to other paths are ignored), a grafanaNet route configuration "
             "(concurrency 1-4, bufSize 2..1000 per worker, flushMaxNum 1-50, flushMaxWait 5-50 ms, timeout 50-200 ms, errBackoffMin 1 ms, blocking "
             "on/off, org id) and a stream of 1-120 points over 1-12 series with increasing timestamps and pauses; optionally Shutdown() right "
             "after the last point. Every POST body is decoded (snappy frame -> msg header -> msgp MetricDataArray). Oracle: (a) #dispatched = "
             "#distinct points in a 2xx-answered request + queue_full counter delta, and nothing acknowledged that was not dispatched; blocking "
             "mode drops nothing; (b) a request answered with a failure is followed, for each series in it, by an identical body before any other; "
             "(c) per series, timestamps in acknowledgement order are non-decreasing; (d) Dispatch returns within 2 s in non-blocking mode; (e) "
             "Shutdown() returns within 20 s and afterwards (a) holds for everything buffered; records carry the configured org id and the "
             "interval of the matching storage-schemas rule. Non-trivial: a failure followed by a retry of the same batch AND a request with >=2 "
             "series. Distinct = hash(script, configuration, stream shape)."),
    "level_text": "Generated fault sequences against a real GrafanaNet route talking to a scripted HTTP server, with decoded POST bodies as the observation; interleavings of workers/timers are sampled.",
    "level_note": "Worker identity is not visible on the wire: retry-before-later-batch is checked per series (a series is pinned to one worker). Liveness bounds (2 s, 20 s) are three orders of magnitude above normal.",
    "technique": "property-based testing (rapid) with scripted HTTP fault injection; oracle over decoded request history",
    "assumptions": ["httptest server on loopback", "snappy + msgp decoders from the module cache decode what the route encodes"],
    "quick": [R("TestPropGrafanaNet", 120)],
    "thorough": [R("TestPropGrafanaNet", 600, shards=12, timeout=3000)],
}

PROPS["C14"] = {
    "pkg": "c14", "level": "exploration",
    "rule": ("admin_and_traffic: a CHILD relay-like process (the test binary in worker mode: real table, the real TCP admin interface (ui/telnet) listening on a loopback port, live TCP sink and HTTP endpoint so that "
             "connection-time code runs, no recover anywhere) is fed generated 'relay lives': 1-6 admin commands, sent as bytes over a TCP "
             "connection to the admin port (also raw bytes, lines longer than the port's 1024-byte read, near-miss command words) / TOML sections "
             "(grammar over every documented "
             "command and option with values biased to {0,1,2,10,2^31,2^32,2^63-1,2^63,10^20, empty, missing, duplicated}, mutations of the "
             "documented examples, garbage; TOML aggregations without regex/interval, routes of all carbon types, grafanaNet, rewriters, "
             "blacklist), metric traffic matching the configured filters on the plain input (valid, invalid, binary junk, 'now'-stamped lines), "
             "then later admin activity (destination deletions down to zero, modDest/modRoute/delRoute, view) and more traffic, then a settle "
             "delay. Oracle: the child answers after every life; if it dies, the lives it handled are replayed one per FRESH child with a longer "
             "settle to attribute delayed crashes, and the culprit is reported with the panic text. filter_values (in-process, thousands of cases "
             "per second): 1-5 of addBlack / addRewriter / addAgg / addRoute / modRoute / modDest whose filter and pattern values come from a "
             "valid-regex grammar, from a grammar-free soup of regex metacharacters (optional ^, literal tokens, then {, {1, (?, [^, \\Q, ... -- "
             "may or may not compile) and plain fragments, followed by dispatches that evaluate the accepted filters; every command and dispatch "
             "must return (a panic is the crash). every_ring_position: a table with a consistentHashing route (2-6 destinations, with/without "
             "instances, optionally filtered) and routes of the other types is sent one metric for EVERY 16-bit ring position (names "
             "precomputed), then the extremes again after a destination was removed. datagram_amqp_bytes: structured, random and boundary-length (4095..9000 B) byte streams as "
             "UDP datagrams through the listener's datagram handler and as AMQP message bodies through the real consumer loop, into a real "
             "table. pickle_bytes / plain_bytes (in-process, panics "
             "recovered): mutated CPython pickles (byte flips, truncation, hostile opcodes and lengths, random payloads, wrong frame lengths) and "
             "random / structured byte streams through input.NewPickle / input.NewPlain -> Table.Dispatch. Non-trivial: >=3 steps of a life were "
             "accepted (the configuration took effect and then carried traffic); byte-level: non-empty stream. Distinct = hash(steps / bytes)."),
    "level_text": "Generated configuration + admin + traffic histories applied to a real relay process whose death is the oracle, plus byte-level robustness properties with native fuzzing in the thorough tier; a universal negative is only ever sampled.",
    "level_note": "kafkaMdm / pubsub / cloudWatch commands are generated only in forms that fail before their constructors need a broker (those call log.Fatalf when the service is unreachable, always the case offline). Buffer SIZES are kept within what a machine can allocate (an absurd size is memory exhaustion on request, not a crash class). A hung worker is restarted, not reported (liveness belongs to C06/C17).",
    "technique": "property-based testing (rapid) with a crash oracle on a child process (grammar + mutation generators); native go fuzzing of the pickle handler in the thorough tier",
    "assumptions": ["a panic in any goroutine terminates the relay exactly as it terminates the child", "og-rek is part of the relay's attack surface"],
    "quick": [R("TestPropAdminAndTraffic", 90, timeout=900), R("TestPropFilterValues", 20000), R("TestPropEveryRingPosition", 12), R("TestPropPickleBytes", 3000), R("TestPropPlainBytes", 3000), R("TestPropDatagramAndAMQPBytes", 5000)],
    "thorough": [R("TestPropAdminAndTraffic", 500, shards=12, timeout=3000), R("TestPropFilterValues", 400000, shards=4, timeout=3000), R("TestPropEveryRingPosition", 150, shards=2, timeout=3000), R("TestPropPickleBytes", 30000, shards=2, timeout=3000), R("TestPropPlainBytes", 100000, shards=2, timeout=3000), R("TestPropDatagramAndAMQPBytes", 100000, shards=2, timeout=3000),
                 F("FuzzPickleHandle", "180s", timeout=1200, workers=8)],
}

# Widenings of the last round of seeded changes, appended to the rule texts (evidence files quote `rule`).
_ROUND5 = {
    "C02": " The bad-metrics report is read with a narrow window first and a wide one afterwards (a narrow query must not shorten what a later wide query shows).",
    "C03": " agg_cache also runs a sibling aggregation that shares regex and output format but not the other filter fields. many_names_aggregation (own sub-check): 100 000 - 300 000 distinct names through ONE cached aggregation, every verdict compared with the reference filter; non-trivial: >= 100 000 names with both verdicts present.",
    "C04": " many_names_rewriter (own sub-check): 100 000 - 300 000 distinct names through ONE rewriter rule object, every result compared with the reference; non-trivial: >= 100 000 names of which some are rewritten and some are not.",
    "C05": " The process log level is drawn per case from {panic, info, debug, trace}; the connection's manual Flush() is issued in the middle of some streams.",
    "C10": " Output formats use every expansion form ($1, ${1}, $0, ${0}, $$, named and missing groups) over regexes with zero or more capture groups.",
    "C11": " Raw values include NaN for the functions that accept it; route filters are modified between rounds.",
    "C12": " real_udp_socket (own sub-check): a started Listener on an IPv4 and an IPv6 loopback address receives generated datagrams (1 byte up to the kernel maximum, 65507 / 65527 bytes, 1-30 lines, last line terminated or not) through its real socket; a marker datagram tells when the one before it has been handled; a datagram that produced nothing is re-sent (kernel loss is never a violation); oracle: the dispatched lines are exactly the lines of the datagram; non-trivial: datagram > 2000 bytes.",
    "C13": " malformed_frame serves the damaged connection and the following healthy connection with ONE handler object; damaged frames also come in sizes above 4096 bytes.",
    "C15": " Hosts are also spelled in upper case, with a trailing dot and as DNS names of up to ~120 characters; instances up to ~100 characters; modDest re-points a destination at run time.",
    "C16": " Numbers in the schemas file are also written zero-padded; section names may repeat.",
    "C17": " 1 case in 20 is a bulk case: 10 001 - 20 001 points, flushMaxNum in {10000, 10001, 15001, 50000}, flushMaxWait 1-2 s, client timeout 5 s, no pauses.",
    "C19": " many_names spreads timestamps over steps of {1, 3, 100} so that first points lie up to a year apart.",
    "C20": " Numbers are also written zero-padded in commands, destination strings and TOML values where the syntax allows a decimal number.",
}
for _k, _v in _ROUND5.items():
    PROPS[_k]["rule"] = PROPS[_k]["rule"] + _v
