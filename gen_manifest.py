#!/usr/bin/env python3
"""Regenerates /verif/MANIFEST.json from checks_config.PROPS (run after editing the config)."""
import json, os, subprocess, sys
VERIF = os.path.dirname(os.path.abspath(__file__))
sys.path.insert(0, VERIF)
from checks_config import PROPS, PENDING_REASON

ids = [json.loads(l)["id"] for l in open(os.path.join(VERIF, "properties.jsonl"))]
hooks = subprocess.run(["git", "-C", "/repo", "log", "--format=%H %s"], stdout=subprocess.PIPE, text=True).stdout.splitlines()
hook_commits = [l.split()[0] for l in hooks if l.split(" ", 1)[1].startswith("verif hook:")]

checks = []
for pid in ids:
    if pid not in PROPS:
        continue
    c = PROPS[pid]
    checks.append({
        "property_id": pid,
        "quick_cmd": "./check %s --tier quick" % pid,
        "thorough_cmd": "./check %s --tier thorough" % pid,
        "evidence_file": "/verif/evidence/%s.json" % pid,
        "replay_cmd_template": "./check %s --replay {path}" % pid,
        "engine": "rapid-harness",
        "level_claimed": {"category": c["level"], "text": c["level_text"], "design_ref": "DESIGN.md section 3, " + pid},
        "level_note": c["level_note"],
        "technique": c["technique"],
    })
m = {
    "version": 1,
    "setup_cmd": "./setup.sh",
    "hooks": {
        "guard": "verif",
        "enable": "go build tag: every check compiles /repo through the harness module (replace => /repo) with `-tags verif`",
        "baseline_off_cmd": "cd /repo && go test -vet=off -count=1 -timeout 25m ./...",
        "source_commits": list(reversed(hook_commits)),
        "add_only": True,
    },
    "engines": [{
        "name": "rapid-harness", "path": "/verif/harness",
        "serves_properties": [c["property_id"] for c in checks],
        "kind_free_text": "Go module with one test package per property: pgregory.net/rapid v1.3.0 generators + state machines, explicit "
                          "reference models / differential / metamorphic oracles, native go fuzz targets in the thorough tier; driven by /verif/check",
    }],
    "checks": checks,
    "notes": "Exit codes of ./check: 0 held, 1 VIOLATION line printed, 2 inconclusive (build failure, deadline, helper death). "
             "Known findings: /verif/known_findings.txt. Seeded breaking changes used to test the checks: /verif/seeded/.",
    "not_applicable": [{"property_id": pid, "reason": PENDING_REASON.get(pid, "check not built yet in this round; see DESIGN.md section 3 for the planned check")}
                       for pid in ids if pid not in PROPS],
}
json.dump(m, open(os.path.join(VERIF, "MANIFEST.json"), "w"), indent=1)
print("wrote MANIFEST.json: %d checks, %d not_applicable" % (len(checks), len(m["not_applicable"])))
