// C01 — every accepted metric reaches exactly the matching routes and destinations.
package c01

import (
	"bytes"
	"fmt"
	"sort"
	"strings"
	"sync"
	"testing"

	"pgregory.net/rapid"

	"verifharness/internal/ev"
	"verifharness/internal/gen"
	"verifharness/internal/h"
	"verifharness/internal/ref"
)

func TestMain(m *testing.M) { h.Init(); ev.Main(m) }

func nameForModel(t *rapid.T, m *ref.Model) string {
	// pick one of the model's filters and draw a name relevant to it
	var fs []gen.Filter
	fs = append(fs, m.Blacklist...)
	for _, a := range m.Aggs {
		fs = append(fs, a.Filter)
	}
	for _, r := range m.Routes {
		fs = append(fs, r.Filter)
		for _, d := range r.Dests {
			fs = append(fs, d.Filter)
		}
	}
	f := fs[rapid.IntRange(0, len(fs)-1).Draw(t, "whichfilter")]
	n := strings.TrimLeft(gen.NameFor(t, f, "name"), ".")
	// keep the name valid at the default validation level and in one piece
	n = strings.Map(func(r rune) rune {
		if r == ';' || r == '=' {
			return '_'
		}
		return r
	}, n)
	if n == "" {
		n = "q"
	}
	return n
}

func TestPropDispatch(t *testing.T) {
	rec := ev.Get("dispatch")
	rapid.Check(t, func(t *rapid.T) { dispatchCase(t, rec, false) })
}

// TestPropConcurrentSenders: the same tables and the same oracle, with the lines of a case handed in by 2-8 goroutines
// at once (several input connections): every line must still reach exactly the routes and destinations the reference
// names, whatever the relay shares between dispatches (buffers, caches, hash state).
func TestPropConcurrentSenders(t *testing.T) {
	rec := ev.Get("concurrent_senders")
	rapid.Check(t, func(t *rapid.T) { dispatchCase(t, rec, true) })
}

func dispatchCase(t *rapid.T, rec *ev.Recorder, concurrent bool) {
	{
		m := ref.GenModel(t, 6, true)
		b := ref.Build(m, ref.BuildOpts{})
		defer b.Close()
		nl := rapid.IntRange(1, 12).Draw(t, "nlines")
		senders := 1
		if concurrent {
			nl = rapid.IntRange(8, 80).Draw(t, "nlines-concurrent")
			senders = rapid.IntRange(2, 8).Draw(t, "senders")
		}
		var toSend []string
		type sent struct {
			line string
			out  ref.Outcome
		}
		var lines []sent
		wantCap := map[int][]string{}
		wantDest := map[int][]int64{}
		wantCH := map[int]int64{}
		var wantBlack, wantUnroutable int64
		ntCase := false
		oddLayout := 0
		c0 := h.ReadTableCounters()
		d0 := b.DestCounts()
		for i := 0; i < nl; i++ {
			name := nameForModel(t, m)
			if rapid.IntRange(0, 5).Draw(t, "leadingdot") == 0 {
				// legal at every validation level; the validator's own view of the name drops this dot, the line keeps it,
				// and every filter of the pipeline is defined on the name as the line carries it
				name = "." + name
			}
			// the line as it may arrive: any whitespace layout the validator accepts (the name is what is left after splitting)
			sep := func(label string) string {
				return rapid.SampledFrom([]string{" ", " ", " ", " ", "\t", "  ", " \t", "\v"}).Draw(t, label)
			}
			lead := rapid.SampledFrom([]string{"", "", "", "", " ", "\t"}).Draw(t, "lead")
			trail := rapid.SampledFrom([]string{"", "", "", " ", "\t "}).Draw(t, "trail")
			line := lead + name + sep("s1") + gen.ValueToken(t, "val") + sep("s2") + gen.TsToken(t, "ts") + trail
			if strings.TrimSpace(line) != line || strings.ContainsAny(line, "\t\v") || strings.Contains(line, "  ") {
				oddLayout++
			}
			o := m.Dispatch(name)
			if !o.Blacklisted && o.NewName == "" {
				// the rewriters reduce this name to nothing: not a metric any more, outside the property's domain
				rec.Class("excluded:rewritten-name-empty", 1)
				continue
			}
			lines = append(lines, sent{line, o})
			fields := strings.Fields(line)
			fwd := o.NewName + " " + fields[1] + " " + fields[2]
			switch {
			case o.Blacklisted:
				wantBlack++
			case o.DroppedRaw:
			default:
				if o.Unroutable {
					wantUnroutable++
				}
				for _, ri := range o.Routes {
					switch m.Routes[ri].Type {
					case "capture":
						wantCap[ri] = append(wantCap[ri], fwd)
					case "consistentHashing":
						wantCH[ri]++
					default:
						if wantDest[ri] == nil {
							wantDest[ri] = make([]int64, len(m.Routes[ri].Dests))
						}
						for _, dj := range o.Dests[ri] {
							wantDest[ri][dj]++
						}
					}
				}
			}
			// non-trivial by the stated rule
			if !o.Blacklisted && !o.DroppedRaw && len(m.Routes) >= 2 && len(o.Routes) >= 1 && len(o.Routes) < len(m.Routes) {
				ntCase = true
			}
			for _, ri := range o.Routes {
				if m.Routes[ri].Type == "sendFirstMatch" {
					// >= 2 destinations would match
					n := 0
					for _, d := range m.Routes[ri].Dests {
						if d.Filter.Ref().Match(o.NewName) {
							n++
						}
					}
					if n >= 2 {
						ntCase = true
					}
				}
			}
			if o.Blacklisted || o.DroppedRaw {
				// a route would have matched
				if len(m.RouteOnly(name).Routes) > 0 {
					ntCase = true
				}
			}
			toSend = append(toSend, line)
		}
		if senders == 1 {
			for _, line := range toSend {
				b.Tab.Dispatch([]byte(line))
			}
		} else {
			var wg sync.WaitGroup
			for g := 0; g < senders; g++ {
				wg.Add(1)
				go func(g int) {
					defer wg.Done()
					buf := make([]byte, 0, 256)
					for i := g; i < len(toSend); i += senders {
						buf = append(buf[:0], toSend[i]...)
						b.Tab.Dispatch(buf)
						for k := range buf { // (an input handler reuses its read buffer)
							buf[k] = '#'
						}
					}
				}(g)
			}
			wg.Wait()
		}
		d1 := b.DestCounts()
		c1 := h.ReadTableCounters().Sub(c0)
		ctx := func() string {
			var sb strings.Builder
			fmt.Fprintf(&sb, "table: %s\nlines:\n", m)
			for _, l := range lines {
				fmt.Fprintf(&sb, "  %q -> blacklisted=%v droppedRaw=%v newName=%q routes=%v dests=%v\n", l.line, l.out.Blacklisted, l.out.DroppedRaw, l.out.NewName, l.out.Routes, l.out.Dests)
			}
			return sb.String()
		}
		if c1.In != int64(len(lines)) || c1.Invalid != 0 {
			t.Fatalf("in=%d invalid=%d for %d valid lines\n%s", c1.In, c1.Invalid, len(lines), ctx())
		}
		if c1.Blacklist != wantBlack {
			t.Fatalf("blacklist counter moved by %d, reference says %d\n%s", c1.Blacklist, wantBlack, ctx())
		}
		if c1.Unroutable != wantUnroutable {
			t.Fatalf("unroutable counter moved by %d, reference says %d\n%s", c1.Unroutable, wantUnroutable, ctx())
		}
		for ri, r := range m.Routes {
			switch r.Type {
			case "capture":
				got := b.Caps[ri].Lines()
				want := wantCap[ri]
				if senders > 1 { // no order between senders: compare as multisets
					got, want = append([]string(nil), got...), append([]string(nil), want...)
					sort.Strings(got)
					sort.Strings(want)
				}
				if fmt.Sprint(got) != fmt.Sprint(want) {
					t.Fatalf("route %s received %q, reference says %q (senders: %d)\n%s", r.Key, got, want, senders, ctx())
				}
				// what a route was handed is that line for good: still the same bytes at the end of the case
				for _, r2 := range b.Caps[ri].Got {
					if !bytes.Equal(r2.Copy, r2.Orig) {
						t.Fatalf("route %s was handed %q; at the end of the case the same slice reads %q (the relay reused it)\n%s", r.Key, r2.Copy, r2.Orig, ctx())
					}
				}
			case "consistentHashing":
				var sum int64
				for j := range r.Dests {
					sum += d1[ri][j] - d0[ri][j]
				}
				if sum != wantCH[ri] {
					t.Fatalf("consistent-hashing route %s handed out %d lines in total, reference says %d (one destination per accepted line)\n%s", r.Key, sum, wantCH[ri], ctx())
				}
			default:
				for j := range r.Dests {
					got := d1[ri][j] - d0[ri][j]
					var want int64
					if wantDest[ri] != nil {
						want = wantDest[ri][j]
					}
					if got != want {
						t.Fatalf("route %s (%s) destination %d was handed %d lines, reference says %d\n%s", r.Key, r.Type, j, got, want, ctx())
					}
				}
			}
		}
		types := map[string]bool{}
		for _, r := range m.Routes {
			types[r.Type] = true
		}
		var tl []string
		for k := range types {
			tl = append(tl, k)
		}
		sort.Strings(tl)
		var ls []string
		for _, l := range lines {
			ls = append(ls, l.line)
		}
		rec.Case(m.String()+" | "+strings.Join(ls, ","), ntCase, fmt.Sprintf("routes=%d", len(m.Routes)), "types="+strings.Join(tl, "+"), fmt.Sprintf("non-canonical-whitespace>0=%v", oddLayout > 0),
			fmt.Sprintf("blacklisted>0=%v", wantBlack > 0), fmt.Sprintf("unroutable>0=%v", wantUnroutable > 0), fmt.Sprintf("senders=%d", senders))
	}
}
