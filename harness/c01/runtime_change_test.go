// C01 — "each route whose filter accepts its (rewritten) name": the filter in force is the one configured NOW.  The same
// names are dispatched again after a route's or a destination's filter was modified at run time (modRoute / modDest);
// whatever the relay remembers about names it has already seen, every line must follow the filters as they are.
package c01

import (
	"fmt"
	"sort"
	"strings"
	"testing"

	"pgregory.net/rapid"

	"verifharness/internal/ev"
	"verifharness/internal/gen"
	"verifharness/internal/h"
	"verifharness/internal/ref"
)

func TestPropRuntimeFilterChange(t *testing.T) {
	rec := ev.Get("runtime_filter_change")
	rapid.Check(t, func(t *rapid.T) {
		m := ref.GenModel(t, 5, true)
		b := ref.Build(m, ref.BuildOpts{})
		defer b.Close()
		var names []string
		for i, n := 0, rapid.IntRange(2, 10).Draw(t, "nnames"); i < n; i++ {
			names = append(names, nameForModel(t, m))
		}
		var hist []string
		changedVerdict := false
		phases := rapid.IntRange(2, 4).Draw(t, "phases")
		for ph := 0; ph < phases; ph++ {
			if ph > 0 {
				// one run-time modification
				ri := rapid.IntRange(0, len(m.Routes)-1).Draw(t, "route")
				f := gen.GenFilter(t, "newfilter", 40)
				opts := map[string]string{"prefix": f.Prefix, "notPrefix": f.NotPrefix, "sub": f.Sub, "notSub": f.NotSub, "regex": f.Regex, "notRegex": f.NotRegex}
				before := fmt.Sprint(verdicts(m, names))
				if nd := len(m.Routes[ri].Dests); nd > 0 && m.Routes[ri].Type != "consistentHashing" && rapid.Bool().Draw(t, "dest?") {
					j := rapid.IntRange(0, nd-1).Draw(t, "dest")
					if err := b.Tab.UpdateDestination(m.Routes[ri].Key, j, opts); err != nil {
						t.Fatalf("HARNESS-ERROR: modDest: %v", err)
					}
					m.Routes[ri].Dests[j].Filter = f
					hist = append(hist, fmt.Sprintf("modDest %s %d %s", m.Routes[ri].Key, j, f))
				} else {
					if err := b.Tab.UpdateRoute(m.Routes[ri].Key, opts); err != nil {
						t.Fatalf("HARNESS-ERROR: modRoute: %v", err)
					}
					m.Routes[ri].Filter = f
					hist = append(hist, fmt.Sprintf("modRoute %s %s", m.Routes[ri].Key, f))
				}
				if fmt.Sprint(verdicts(m, names)) != before {
					changedVerdict = true
				}
			}
			for _, c := range b.Caps {
				if c != nil {
					c.Reset()
				}
			}
			c0 := h.ReadTableCounters()
			d0 := b.DestCounts()
			wantCap := map[int][]string{}
			wantDest := map[int][]int64{}
			wantCH := map[int]int64{}
			var wantBlack, wantUnroutable, sentN int64
			for i, name := range names {
				o := m.Dispatch(name)
				if !o.Blacklisted && o.NewName == "" {
					continue
				}
				line := fmt.Sprintf("%s %d 15000000%02d", name, i, ph)
				sentN++
				switch {
				case o.Blacklisted:
					wantBlack++
				case o.DroppedRaw:
				default:
					if o.Unroutable {
						wantUnroutable++
					}
					for _, ri := range o.Routes {
						switch m.Routes[ri].Type {
						case "capture":
							wantCap[ri] = append(wantCap[ri], fmt.Sprintf("%s %d 15000000%02d", o.NewName, i, ph))
						case "consistentHashing":
							wantCH[ri]++
						default:
							if wantDest[ri] == nil {
								wantDest[ri] = make([]int64, len(m.Routes[ri].Dests))
							}
							for _, dj := range o.Dests[ri] {
								wantDest[ri][dj]++
							}
						}
					}
				}
				b.Tab.Dispatch([]byte(line))
			}
			d1 := b.DestCounts()
			c1 := h.ReadTableCounters().Sub(c0)
			ctx := fmt.Sprintf("table at the start: see filters below; run-time changes so far: %v; names %q; phase %d\ntable now: %s", hist, names, ph, m)
			if c1.In != sentN || c1.Blacklist != wantBlack || c1.Unroutable != wantUnroutable {
				t.Fatalf("counters in=%d blacklisted=%d unroutable=%d, the filters as they are now give in=%d blacklisted=%d unroutable=%d\n%s", c1.In, c1.Blacklist, c1.Unroutable, sentN, wantBlack, wantUnroutable, ctx)
			}
			for ri, r := range m.Routes {
				switch r.Type {
				case "capture":
					got := append([]string(nil), b.Caps[ri].Lines()...)
					want := append([]string(nil), wantCap[ri]...)
					sort.Strings(got)
					sort.Strings(want)
					if fmt.Sprint(got) != fmt.Sprint(want) {
						t.Fatalf("route %s received %q, the filters as they are now give %q\n%s", r.Key, got, want, ctx)
					}
				case "consistentHashing":
					var sum int64
					for j := range r.Dests {
						sum += d1[ri][j] - d0[ri][j]
					}
					if sum != wantCH[ri] {
						t.Fatalf("consistent-hashing route %s handed out %d lines, the filters as they are now give %d\n%s", r.Key, sum, wantCH[ri], ctx)
					}
				default:
					for j := range r.Dests {
						var want int64
						if wantDest[ri] != nil {
							want = wantDest[ri][j]
						}
						if got := d1[ri][j] - d0[ri][j]; got != want {
							t.Fatalf("route %s (%s) destination %d was handed %d lines, the filters as they are now give %d\n%s", r.Key, r.Type, j, got, want, ctx)
						}
					}
				}
			}
		}
		rec.Case(strings.Join(hist, "; ")+" | "+strings.Join(names, ","), changedVerdict, fmt.Sprintf("phases=%d", phases), fmt.Sprintf("a-change-altered-a-verdict-for-a-known-name=%v", changedVerdict))
	})
}

// verdicts: which routes / destinations each name goes to under the model (used to tell whether a change matters).
func verdicts(m *ref.Model, names []string) []string {
	var out []string
	for _, n := range names {
		o := m.Dispatch(n)
		out = append(out, fmt.Sprintf("%v|%v|%v|%v", o.Blacklisted, o.DroppedRaw, o.Routes, o.Dests))
	}
	return out
}
