// C02 — only valid metrics are forwarded; every rejection is counted and reported.
package c02

import (
	"bytes"
	"fmt"
	"strconv"
	"strings"
	"testing"
	"time"
	"unicode"
	"unicode/utf8"

	"github.com/BurntSushi/toml"
	"github.com/grafana/carbon-relay-ng/aggregator"
	"github.com/grafana/carbon-relay-ng/cfg"
	"github.com/grafana/carbon-relay-ng/matcher"
	"github.com/grafana/carbon-relay-ng/rewriter"
	"github.com/grafana/carbon-relay-ng/table"
	m20 "github.com/metrics20/go-metrics20/carbon20"
	"pgregory.net/rapid"

	"verifharness/internal/ev"
	"verifharness/internal/gen"
	"verifharness/internal/h"
)

func TestMain(m *testing.M) { h.Init(); ev.Main(m) }

// ---- reference validator (docs/validation.md + the property statement) -----------------------

func refFields(line []byte) [][]byte {
	// whitespace-separated fields (Unicode white space, as the relay's splitter defines it)
	var out [][]byte
	start := -1
	for i := 0; i < len(line); {
		r, sz := rune(line[i]), 1
		if r >= utf8.RuneSelf {
			r, sz = utf8.DecodeRune(line[i:])
		}
		if unicode.IsSpace(r) {
			if start >= 0 {
				out = append(out, line[start:i])
				start = -1
			}
		} else if start < 0 {
			start = i
		}
		i += sz
	}
	if start >= 0 {
		out = append(out, line[start:])
	}
	return out
}

// version detection as the validation library defines it: the first of '=',
// "_is_" or '.' (scanning left to right) decides
func refVersion(key []byte) string {
	for i, c := range key {
		switch {
		case c == '=':
			return "m20"
		case c == '_' && len(key) > i+3 && string(key[i:i+4]) == "_is_":
			return "m20ne"
		case c == '.':
			return "legacy"
		}
	}
	return "legacy"
}

func refAppendixOK(app string) bool {
	// (';' key '=' value)+ ; key: 1+ chars without ';' '!' '=' ; value: 1+ chars without ';' '='
	for len(app) > 0 {
		if app[0] != ';' {
			return false
		}
		app = app[1:]
		end := strings.IndexByte(app, ';')
		sec := app
		if end >= 0 {
			sec, app = app[:end], app[end:]
		} else {
			app = ""
		}
		eq := strings.IndexByte(sec, '=')
		if eq <= 0 || eq == len(sec)-1 {
			return false
		}
		k, v := sec[:eq], sec[eq+1:]
		if strings.ContainsAny(k, "!") || strings.ContainsAny(v, "=") {
			return false
		}
	}
	return true
}

func refKeyOK(key []byte, legacy, m20lvl string) bool {
	switch refVersion(key) {
	case "legacy":
		if legacy == "none" {
			return true
		}
		name := string(key)
		if i := strings.IndexByte(name, ';'); i >= 0 {
			if i == 0 {
				return false
			}
			if !refAppendixOK(name[i:]) {
				return false
			}
			name = name[:i]
		}
		if legacy == "strict" {
			if strings.Contains(name, "..") {
				return false
			}
			for i := 0; i < len(name); i++ {
				c := name[i]
				if !(c >= 'a' && c <= 'z' || c >= 'A' && c <= 'Z' || c >= '0' && c <= '9' || c == '_' || c == '-' || c == '.') {
					return false
				}
			}
		}
		for _, c := range key { // 8-bit clean and not NUL, appendix included
			if c == 0 || c >= 0x80 {
				return false
			}
		}
		return true
	case "m20":
		if m20lvl == "none" {
			return true
		}
		s := string(key)
		return !strings.Contains(s, "_is_") && (strings.HasPrefix(s, "unit=") || strings.Contains(s, ".unit=")) &&
			(strings.HasPrefix(s, "mtype=") || strings.Contains(s, ".mtype=")) && strings.Count(s, ".") >= 2
	default:
		if m20lvl == "none" {
			return true
		}
		s := string(key)
		return !strings.Contains(s, "=") && (strings.HasPrefix(s, "unit_is_") || strings.Contains(s, ".unit_is_")) &&
			(strings.HasPrefix(s, "mtype_is_") || strings.Contains(s, ".mtype_is_")) && strings.Count(s, ".") >= 2
	}
}

// refValid: the verdict and the name under which a rejection is reported ("" = not parseable)
func refValid(line []byte, legacy, m20lvl string) (bool, string, bool) {
	f := refFields(line)
	if len(f) != 3 {
		return false, "", false
	}
	key := f[0]
	if len(key) > 0 && key[0] == '.' {
		key = key[1:] // graphite ignores one leading dot
	}
	nameOK := refKeyOK(key, legacy, m20lvl)
	if !nameOK {
		return false, string(key), false
	}
	if _, err := strconv.ParseFloat(string(f[1]), 64); err != nil {
		return false, string(key), true
	}
	if _, err := strconv.ParseFloat(string(f[2]), 64); err != nil {
		return false, string(key), true
	}
	return true, string(key), true
}

var legacyLevels = map[string]m20.ValidationLevelLegacy{"none": m20.NoneLegacy, "medium": m20.MediumLegacy, "strict": m20.StrictLegacy}
var m20Levels = map[string]m20.ValidationLevelM20{"none": m20.NoneM20, "medium": m20.MediumM20}

// ---- line generator ---------------------------------------------------------------------------------

var specialNames = []string{
	"foo!bar", "foo/bar", "foo:bar", "a..b", ".leading.dot", "..double", "caf\xc3\xa9.x", "a\x00b", "\xff\xfe", "a.b;k=v", "a.b;k=v;k2=v2", "a.b;", "a.b;k", "a.b;=v", "a.b;k=",
	"a.b;k!=v", "a.b;k=v=w", "a.b;;k=v", "a.b;k=v;", ";k=v", "a;k=v", "a.b;k=caf\xc3\xa9", "a!b;k=v", "a..b;k=v",
	"unit=B.mtype=gauge.host=x", "host=x.unit=B.mtype=gauge", "unit=B.host=x.y=z", "mtype=gauge.host=x.y=z", "unit=B.mtype=gauge", "unit=B.mtype=gauge.host_is_x",
	"unit_is_B.mtype_is_gauge.host_is_x", "unit_is_B.mtype_is_gauge.host=x", "unit_is_B.host_is_x.a_is_b", "foo.unit=B", "foo.bar_is_baz", "a=b", "a_is_b", "=", "_is_", "unit=B!.mtype=gauge.x=y",
	"a", "-", "_", "A.B-c_d.9", ".", "..", ";", "a;b=c;d=e;f=g",
}

var numTokens = []string{"1", "0", "12", "-3", "+5", "1e3", "1.5", ".5", "0x1p-2", "1E-2", "NaN", "Inf", "-Inf", "007", "1.", "1_0", "0x", "1,5", "abc", "1500000000", "1500000000.5", "4294967296", "-1", "1e400", "0b1", "١"}

func genLine(t *rapid.T) []byte {
	if rapid.IntRange(0, 9).Draw(t, "random") == 0 {
		return rapid.SliceOfN(rapid.Byte(), 0, 40).Draw(t, "bytes")
	}
	nf := rapid.SampledFrom([]int{3, 3, 3, 3, 3, 3, 3, 0, 1, 2, 4, 5}).Draw(t, "nfields")
	var sb bytes.Buffer
	sep := func() string {
		return rapid.SampledFrom([]string{" ", " ", " ", "\t", "  ", "\v", " ", " ", "\r"}).Draw(t, "sep")
	}
	if rapid.IntRange(0, 7).Draw(t, "lead") == 0 {
		sb.WriteString(sep())
	}
	for i := 0; i < nf; i++ {
		if i > 0 {
			sb.WriteString(sep())
		}
		switch {
		case i == 0:
			if rapid.IntRange(0, 2).Draw(t, "special") == 0 {
				sb.WriteString(rapid.SampledFrom(specialNames).Draw(t, "sname"))
			} else {
				n := gen.Name(t, "name")
				if rapid.IntRange(0, 7).Draw(t, "dot") == 0 {
					n = "." + n
				}
				sb.WriteString(n)
			}
		default:
			k := rapid.IntRange(0, 9).Draw(t, "numclass")
			if k < 6 {
				sb.WriteString(rapid.SampledFrom(numTokens[:13]).Draw(t, "num"))
			} else {
				sb.WriteString(rapid.SampledFrom(numTokens).Draw(t, "num"))
			}
		}
	}
	if rapid.IntRange(0, 7).Draw(t, "trail") == 0 {
		sb.WriteString(sep())
	}
	return sb.Bytes()
}

// ---- the check ------------------------------------------------------------------------------------------

var combos = [][2]string{{"none", "none"}, {"none", "medium"}, {"medium", "none"}, {"medium", "medium"}, {"strict", "none"}, {"strict", "medium"}}

func tableConfigFromText(t *rapid.T, legacy, m20lvl string, omitLegacy, omitM20 bool, order string) table.TableConfig {
	var sb strings.Builder
	sb.WriteString("instance = \"c02\"\nbad_metrics_max_age = \"1h\"\nspool_dir = \"/nonexistent-spool\"\n")
	if !omitLegacy {
		fmt.Fprintf(&sb, "validation_level_legacy = %q\n", legacy)
	}
	if !omitM20 {
		fmt.Fprintf(&sb, "validation_level_m20 = %q\n", m20lvl)
	}
	if order != "" {
		fmt.Fprintf(&sb, "validate_order = %s\n", order)
	}
	c := cfg.NewConfig()
	if _, err := toml.Decode(sb.String(), &c); err != nil {
		t.Fatalf("configuration text refused: %v\n%s", err, sb.String())
	}
	tc, err := c.TableConfig()
	if err != nil {
		t.Fatalf("TableConfig: %v", err)
	}
	return tc
}

var caseNo int

func TestPropValidity(t *testing.T) {
	rec := ev.Get("validity")
	rapid.Check(t, func(t *rapid.T) {
		caseNo++
		combo := rapid.SampledFrom(combos).Draw(t, "levels")
		legacy, m20lvl := combo[0], combo[1]
		// the documented defaults are medium / medium: leaving the key out must mean that
		omitL := legacy == "medium" && rapid.Bool().Draw(t, "omitLegacy")
		omitM := m20lvl == "medium" && rapid.Bool().Draw(t, "omitM20")
		// order validation on: validity must still be decided, counted and reported the same way.  Lines then carry
		// per-case unique names and positive integer timestamps, so that no VALID line is rejected for its order.
		order := rapid.SampledFrom([]string{"", "", "false", "true", "true"}).Draw(t, "validate_order")
		ordered := order == "true"
		tab := h.NewTable(false)
		tab.VerifReset(tableConfigFromText(t, legacy, m20lvl, omitL, omitM, order))
		cap := h.NewCaptureRoute("cap", matcher.Matcher{})
		am, _ := matcher.New("", "", "", "", "(?s).*", "")
		aggOut := make(chan []byte, 1000)
		tick := make(chan time.Time)
		agg, err := aggregator.NewMocked("count", am, "c02agg", false, 10, 100, false, aggOut, 0, time.Now, tick)
		if err != nil {
			t.Fatalf("HARNESS-ERROR: %v", err)
		}
		defer agg.Shutdown()
		tab.AddAggregator(agg)
		tab.AddRoute(cap)
		aggIn := "unit=Metric.direction=in.aggregator=" + agg.Key
		// a blacklist entry in half of the cases: validity is decided first whatever the blacklist says (an invalid line is
		// counted and reported as invalid even when its name is blacklisted); a VALID line with a blacklisted name is
		// counted as blacklisted and goes nowhere
		var black *gen.Ref
		blackDesc := "none"
		if rapid.Bool().Draw(t, "blacklist") {
			bf := gen.Filter{}
			switch rapid.IntRange(0, 2).Draw(t, "blackkind") {
			case 0:
				bf.Sub = rapid.SampledFrom([]string{"a", "o", ".", "1", "=", "foo"}).Draw(t, "blacksub")
			case 1:
				bf.Regex = rapid.SampledFrom([]string{".", "^[a-m.]", "[0-9]", "^.{1,8}$"}).Draw(t, "blackre")
			default:
				bf.NotPrefix = rapid.SampledFrom([]string{"a", "foo", "x", "."}).Draw(t, "blacknotprefix")
			}
			bm := bf.MustMatcher()
			tab.AddBlacklist(&bm)
			black = bf.Ref()
			blackDesc = bf.String()
		}
		nBlack := 0

		n := rapid.IntRange(1, 25).Draw(t, "nlines")
		c0 := h.ReadTableCounters()
		a0 := h.Count(aggIn)
		var wantFwd []string
		nInvalid := 0
		lastBad := map[string]string{}
		nt := false
		var lines []string
		var adminOps []string
		for i := 0; i < n; i++ {
			line := genLine(t)
			if ordered {
				line = orderSafe(line, caseNo, i)
			}
			lines = append(lines, string(line))
			ok, name, nameOK := refValid(line, legacy, m20lvl)
			// self-validation of the reference against the validation library (a disagreement is a harness error)
			_, _, _, lerr := m20.ValidatePacket(append([]byte(nil), line...), legacyLevels[legacy], m20Levels[m20lvl])
			if (lerr == nil) != ok {
				t.Fatalf("HARNESS-ERROR: reference validator says valid=%v for %q at %s/%s but carbon20.ValidatePacket says %v", ok, line, legacy, m20lvl, lerr)
			}
			if ok && black != nil && black.Match(string(refFields(line)[0])) {
				nBlack++
			} else if ok {
				f := refFields(line)
				wantFwd = append(wantFwd, string(bytes.Join(f, []byte(" "))))
			} else {
				nInvalid++
				if len(refFields(line)) == 3 && name != "" {
					lastBad[name] = string(line) // (an empty name shares its record with the unparseable lines)
				}
			}
			// non-trivial: three fields and the verdict depends on the level combination, or invalid with a valid name
			if len(refFields(line)) == 3 {
				v0, _, _ := refValid(line, combos[0][0], combos[0][1])
				for _, c := range combos[1:] {
					if v, _, _ := refValid(line, c[0], c[1]); v != v0 {
						nt = true
					}
				}
				if !ok && nameOK {
					nt = true
				}
			}
			// now and then the table is changed at run time in a way that cannot concern any line (an entry that matches
			// nothing is added and deleted again, a filter is "modified" to what it was): the configured levels, the order
			// switch and everything else must stay what the configuration said
			if rapid.IntRange(0, 7).Draw(t, "adminop") == 0 {
				op := rapid.SampledFrom([]string{"route", "blacklist", "rewriter", "aggregation", "modRoute"}).Draw(t, "adminkind")
				adminOps = append(adminOps, fmt.Sprintf("%s@%d", op, i))
				var err error
				switch op {
				case "route":
					never, _ := matcher.New("\x01never", "", "", "", "", "")
					tab.AddRoute(h.NewCaptureRoute("c02tmp", never))
					err = tab.DelRoute("c02tmp")
				case "blacklist":
					never, _ := matcher.New("\x01never", "", "", "", "", "")
					tab.AddBlacklist(&never)
					idx := 0
					if black != nil {
						idx = 1
					}
					err = tab.DelBlacklist(idx)
				case "rewriter":
					rw, rerr := rewriter.New("\x01never", "x", "", -1)
					if rerr != nil {
						t.Fatalf("HARNESS-ERROR: %v", rerr)
					}
					tab.AddRewriter(rw)
					err = tab.DelRewriter(0)
				case "aggregation":
					nm, _ := matcher.New("", "", "", "", "^\x01never$", "")
					tmp, aerr := aggregator.NewMocked("count", nm, "c02tmp", false, 10, 100, false, make(chan []byte, 10), 0, time.Now, make(chan time.Time))
					if aerr != nil {
						t.Fatalf("HARNESS-ERROR: %v", aerr)
					}
					tab.AddAggregator(tmp)
					err = tab.DelAggregator(1)
				case "modRoute":
					err = tab.UpdateRoute("cap", map[string]string{"prefix": ""})
				}
				if err != nil {
					t.Fatalf("HARNESS-ERROR: runtime change %s failed: %v", op, err)
				}
			}
			tab.Dispatch(line)
		}
		h.AggBarrier(agg)
		d := h.ReadTableCounters().Sub(c0)
		ctx := fmt.Sprintf("levels legacy=%s(omitted=%v) m20=%s(omitted=%v) validate_order=%q blacklist=%s runtime-changes=%v lines=%q", legacy, omitL, m20lvl, omitM, order, blackDesc, adminOps, lines)
		if int(d.In) != n {
			t.Fatalf("inbound counter moved by %d for %d lines; %s", d.In, n, ctx)
		}
		if int(d.Invalid) != nInvalid {
			t.Fatalf("invalid counter moved by %d, %d lines are invalid; %s", d.Invalid, nInvalid, ctx)
		}
		got := cap.Lines()
		if len(got) != len(wantFwd) {
			t.Fatalf("forwarded %q, want %q; %s", got, wantFwd, ctx)
		}
		for i := range got {
			// a single leading dot may or may not be kept
			if got[i] != wantFwd[i] && "."+got[i] != wantFwd[i] {
				t.Fatalf("forwarded line %d is %q, want %q; %s", i, got[i], wantFwd[i], ctx)
			}
		}
		if da := h.Count(aggIn) - a0; int(da) != len(wantFwd) {
			t.Fatalf("the catch-all aggregation received %d points, %d lines are valid; %s", da, len(wantFwd), ctx)
		}
		if int(d.Blacklist) != nBlack {
			t.Fatalf("blacklist counter moved by %d, %d valid lines have a blacklisted name (entry %s); %s", d.Blacklist, nBlack, blackDesc, ctx)
		}
		if d.Unroutable != 0 || d.OutOfOrder != 0 {
			t.Fatalf("unexpected counters %+v; %s", d, ctx)
		}
		// bad-metrics report: every rejected parseable line under its name, with the last rejected text and a reason
		if len(lastBad) > 0 {
			deadline := time.Now().Add(10 * time.Second)
			// the report is a query with a window (the admin UI asks for the last minute, ten minutes, hour ...): asking for a
			// narrow window first must not change what a wider one shows afterwards
			window := time.Duration(rapid.SampledFrom([]int{0, 0, 1, 1000, 1000000, 3600000000}).Draw(t, "firstWindowUs")) * time.Microsecond
			for {
				if window > 0 {
					tab.Bad().Get(window)
				}
				recs := map[string][2]string{}
				for _, r := range tab.Bad().Get(time.Hour) {
					recs[r.Metric] = [2]string{r.LastMsg, r.LastErr}
				}
				missing := ""
				for name, text := range lastBad {
					r, ok := recs[name]
					if !ok {
						r, ok = recs["."+name]
					}
					if !ok || r[0] != text || r[1] == "" {
						missing = fmt.Sprintf("name %q: want last text %q with a reason, report has %q (present=%v)", name, text, r, ok)
						break
					}
				}
				if missing == "" {
					break
				}
				if time.Now().After(deadline) {
					t.Fatalf("bad-metrics report incomplete: %s; %s", missing, ctx)
				}
				time.Sleep(100 * time.Microsecond)
			}
		}
		rec.Case(ctx, nt, "legacy="+legacy, "m20="+m20lvl, "validate_order="+order, fmt.Sprintf("omitted-key=%v", omitL || omitM), fmt.Sprintf("invalid>0=%v", nInvalid > 0), fmt.Sprintf("valid>0=%v", len(wantFwd) > 0), fmt.Sprintf("runtime-table-change-between-lines=%v", len(adminOps) > 0))
		rec.Num("lines", int64(n))
	})
}

// the name -> level mapping of the configuration file, and unknown level names
func TestPropLevelNames(t *testing.T) {
	rec := ev.Get("level_names")
	rapid.Check(t, func(t *rapid.T) {
		key := rapid.SampledFrom([]string{"validation_level_legacy", "validation_level_m20"}).Draw(t, "key")
		val := rapid.SampledFrom([]string{"none", "medium", "strict", "Strict", "", "high", "low", "0", "MEDIUM"}).Draw(t, "val")
		c := cfg.NewConfig()
		_, err := toml.Decode(fmt.Sprintf("%s = %q\n", key, val), &c)
		known := val == "none" || val == "medium" || (val == "strict" && key == "validation_level_legacy")
		if known != (err == nil) {
			t.Fatalf("%s = %q: accepted=%v, documented level names say %v (err %v)", key, val, err == nil, known, err)
		}
		if err == nil {
			if key == "validation_level_legacy" && c.Validation_level_legacy.Level != legacyLevels[val] {
				t.Fatalf("%s = %q selected level %v", key, val, c.Validation_level_legacy.Level)
			}
			if key == "validation_level_m20" && c.Validation_level_m20.Level != m20Levels[val] {
				t.Fatalf("%s = %q selected level %v", key, val, c.Validation_level_m20.Level)
			}
		}
		rec.Case(key+"="+val, true)
	})
}

func FuzzDispatchValidity(f *testing.F) {
	f.Add([]byte("foo.bar 1 1500000000"), uint8(3))
	f.Add([]byte("a.b;k=v 1e3 NaN"), uint8(5))
	f.Add([]byte("unit=B.mtype=gauge.host=x 0x1p-2 1"), uint8(1))
	f.Add([]byte("a..b\t1\t2"), uint8(4))
	f.Add([]byte("a\x00b 1 2"), uint8(2))
	f.Fuzz(func(t *testing.T, line []byte, lv uint8) {
		c := combos[int(lv)%len(combos)]
		ok, _, _ := refValid(line, c[0], c[1])
		_, _, _, lerr := m20.ValidatePacket(append([]byte(nil), line...), legacyLevels[c[0]], m20Levels[c[1]])
		if (lerr == nil) != ok {
			t.Skip() // reference and library disagree: harness matter, not reported by the fuzz target
		}
		cfgT, _ := table.NewTableConfig("/nonexistent-spool", "1h", struct{ Level m20.ValidationLevelLegacy }{legacyLevels[c[0]]}, struct{ Level m20.ValidationLevelM20 }{m20Levels[c[1]]}, false)
		tab := h.NewTable(false)
		tab.VerifReset(cfgT)
		cap := h.NewCaptureRoute("cap", matcher.Matcher{})
		tab.AddRoute(cap)
		c0 := h.ReadTableCounters()
		tab.Dispatch(line)
		d := h.ReadTableCounters().Sub(c0)
		fwd := len(cap.Lines()) == 1
		if fwd != ok || d.In != 1 || (d.Invalid == 1) == ok {
			t.Fatalf("line %q at %v: forwarded=%v reference valid=%v counters %+v", line, c, fwd, ok, d)
		}
	})
}

// orderSafe rewrites a generated line for runs with order validation on: a three-field line gets a name suffix
// that is unique in this process (legacy names only; metrics2.0 names get a unique extra tag value) and, when its
// timestamp token is numeric, the token "1500000000" + a per-line offset, so a valid line can never be "not newer".
func orderSafe(line []byte, caseNo, i int) []byte {
	f := refFields(line)
	if len(f) != 3 {
		return line
	}
	uniq := fmt.Sprintf("u%dx%d", caseNo, i)
	name := string(f[0])
	switch refVersion(bytes.TrimPrefix(f[0], []byte("."))) {
	case "legacy":
		if j := strings.IndexByte(name, ';'); j >= 0 {
			name = name[:j] + "." + uniq + name[j:]
		} else {
			name += "." + uniq
		}
	case "m20":
		name += ".uq=" + uniq
	default:
		name += ".uq_is_" + uniq
	}
	ts := string(f[2])
	if _, err := strconv.ParseFloat(ts, 64); err == nil {
		ts = strconv.Itoa(1500000000 + i)
	}
	return []byte(name + " " + string(f[1]) + " " + ts)
}
