// C03 — filters mean exactly the documented conjunction, evaluated on the
// metric name, wherever a filter is configured.
package c03

import (
	"fmt"
	"strings"
	"testing"
	"time"

	"github.com/grafana/carbon-relay-ng/aggregator"
	dest "github.com/grafana/carbon-relay-ng/destination"
	"github.com/grafana/carbon-relay-ng/matcher"
	"github.com/grafana/carbon-relay-ng/route"
	"pgregory.net/rapid"

	"verifharness/internal/ev"
	"verifharness/internal/gen"
	"verifharness/internal/h"
)

func TestMain(m *testing.M) { h.Init(); ev.Main(m) }

// ---- (i) filter x name, directly at matcher.Match ----------------------------

func checkMatcher(t *rapid.T, f gen.Filter, name string) {
	m := f.MustMatcher()
	ref := f.Ref()
	want := ref.Match(name)
	got := m.Match([]byte(name))
	if got != want {
		t.Fatalf("matcher.Match disagrees with the documented conjunction: filter=%s name=%q got=%v want=%v parts=%v", f, name, got, want, ref.Parts(name))
	}
	// the quick pre-check may only discard names the full filter rejects
	if want && !m.PreMatch([]byte(name)) {
		t.Fatalf("PreMatch discards a name the filter accepts: filter=%s name=%q", f, name)
	}
	nt := f.NumSet() >= 2 && (gen.RegexInteresting(f.Regex) || gen.RegexInteresting(f.NotRegex)) && ref.Disagree(name)
	cls := []string{fmt.Sprintf("verdict=%v", want), fmt.Sprintf("nset=%d", f.NumSet())}
	if gen.RegexInteresting(f.Regex) {
		cls = append(cls, "regex:quant-or-alt-early")
	}
	if strings.HasPrefix(f.Regex, "^") {
		cls = append(cls, "regex:anchored")
	}
	ev.Get("matcher").Case(f.String()+" name="+name, nt, cls...)
}

func TestPropMatcher(t *testing.T) {
	rapid.Check(t, func(t *rapid.T) {
		f := gen.GenFilter(t, "f", 40)
		n := rapid.IntRange(1, 6).Draw(t, "nnames")
		for i := 0; i < n; i++ {
			checkMatcher(t, f, gen.NameFor(t, f, "name"))
		}
	})
}

// Regex-only filters get extra attention (the static-prefix shortcut).
func TestPropMatcherRegexOnly(t *testing.T) {
	rapid.Check(t, func(t *rapid.T) {
		var f gen.Filter
		if rapid.Bool().Draw(t, "pos") {
			f.Regex = gen.Regex(t, "re")
		} else {
			f.NotRegex = gen.Regex(t, "re")
		}
		if rapid.IntRange(0, 3).Draw(t, "both") == 0 {
			f.Regex = gen.Regex(t, "re1")
			f.NotRegex = gen.Regex(t, "re2")
		}
		n := rapid.IntRange(1, 8).Draw(t, "nnames")
		for i := 0; i < n; i++ {
			name := gen.NameFor(t, f, "name")
			m := f.MustMatcher()
			ref := f.Ref()
			want := ref.Match(name)
			if got := m.Match([]byte(name)); got != want {
				t.Fatalf("matcher.Match disagrees with RE2 search: filter=%s name=%q got=%v want=%v", f, name, got, want)
			}
			if want && !m.PreMatch([]byte(name)) {
				t.Fatalf("PreMatch discards a name the filter accepts: filter=%s name=%q", f, name)
			}
			nt := gen.RegexInteresting(f.Regex) || gen.RegexInteresting(f.NotRegex)
			ev.Get("matcher_regex_only").Case(f.String()+" name="+name, nt, fmt.Sprintf("verdict=%v", want))
		}
	})
}

// ---- (ii) the same filter at each place ---------------------------------------

type lineT struct {
	name, val, ts       string
	lead, s1, s2, trail string // the whitespace layout the line arrives with ("" = canonical single blanks)
}

// String: the line as it is forwarded (three fields, single blanks).
func (l lineT) String() string { return l.name + " " + l.val + " " + l.ts }

// Wire: the line as it arrives.  Any whitespace layout the validator accepts denotes the same metric: the name is what
// is left after splitting, and every filter is defined on that name only.
func (l lineT) Wire() string {
	if l.s1 == "" {
		return l.String()
	}
	return l.lead + l.name + l.s1 + l.val + l.s2 + l.ts + l.trail
}

const nowUnix = 1500000000 // multiple of 10

func genLines(t *rapid.T, f gen.Filter) []lineT {
	n := rapid.IntRange(1, 4).Draw(t, "nlines")
	out := make([]lineT, n)
	for i := range out {
		name := strings.TrimLeft(gen.NameFor(t, f, "name"), ".")
		if name == "" {
			name = "q"
		}
		// one name in six arrives with a leading dot (legal; validation looks at the name without it, every filter at
		// every place must still see the name as it was sent and as it is forwarded)
		if rapid.IntRange(0, 5).Draw(t, "leadingdot") == 0 {
			name = "." + name
		}
		// value / timestamp chosen from the literals filters are built of
		// (1, 12, 5, ...): the verdict must not depend on them.
		out[i] = lineT{name: name, val: gen.ValueToken(t, "val"), ts: fmt.Sprintf("%d", nowUnix+rapid.SampledFrom([]int{0, 1, 2, 5, 9}).Draw(t, "tsoff"))}
		if rapid.IntRange(0, 3).Draw(t, "layout") == 0 {
			sep := func(label string) string {
				return rapid.SampledFrom([]string{"\t", "\t", " ", "  ", " \t", "\v"}).Draw(t, label)
			}
			out[i].s1, out[i].s2 = sep("s1"), sep("s2")
			out[i].lead = rapid.SampledFrom([]string{"", "", " ", "\t"}).Draw(t, "lead")
			out[i].trail = rapid.SampledFrom([]string{"", "", " ", "\t "}).Draw(t, "trail")
		}
	}
	return out
}

var caseSeq int

func TestPropPlaces(t *testing.T) {
	rec := ev.Get("places")
	rapid.Check(t, func(t *rapid.T) {
		caseSeq++
		place := rapid.SampledFrom([]string{"blacklist", "route", "dest-all", "dest-first", "dest-update", "route-update", "agg", "agg-dropraw", "aggregate-route", "aggregate-dest"}).Draw(t, "place")
		f := gen.GenFilter(t, "f", 35)
		if strings.HasPrefix(place, "agg") && !strings.HasPrefix(place, "aggregate") && f.Regex == "" {
			f.Regex = gen.Regex(t, "aggre") // an aggregation requires a regex
		}
		ref := f.Ref()
		lines := genLines(t, f)
		tab := h.NewTable(false)
		rkey := "c03r"
		nt := false
		for _, l := range lines {
			if f.NumSet() >= 2 && (gen.RegexInteresting(f.Regex) || gen.RegexInteresting(f.NotRegex)) && ref.Disagree(l.name) {
				nt = true
			}
		}
		var wantMatch []bool
		nMatch := 0
		for _, l := range lines {
			w := ref.Match(l.name)
			wantMatch = append(wantMatch, w)
			if w {
				nMatch++
			}
		}
		canon := place + " " + f.String() + " lines=" + fmt.Sprint(lines)
		before := h.ReadTableCounters()

		switch place {
		case "blacklist":
			m := f.MustMatcher()
			tab.AddBlacklist(&m)
			cap := h.NewCaptureRoute("cap", matcher.Matcher{})
			tab.AddRoute(cap)
			for _, l := range lines {
				tab.Dispatch([]byte(l.Wire()))
			}
			d := h.ReadTableCounters().Sub(before)
			if int(d.Blacklist) != nMatch {
				t.Fatalf("blacklist %s: %d of %v counted blacklisted, want %d (%v)", f, d.Blacklist, lines, nMatch, wantMatch)
			}
			var want []string
			for i, l := range lines {
				if !wantMatch[i] {
					want = append(want, l.String())
				}
			}
			if got := cap.Lines(); fmt.Sprint(got) != fmt.Sprint(want) {
				t.Fatalf("blacklist %s: forwarded %q want %q", f, got, want)
			}

		case "route", "route-update", "dest-all", "dest-first", "dest-update", "aggregate-route", "aggregate-dest":
			var rm, dm matcher.Matcher
			switch place {
			case "route", "aggregate-route":
				rm = f.MustMatcher()
			case "dest-all", "dest-first", "aggregate-dest":
				dm = f.MustMatcher()
			}
			d0 := h.CounterDest(rkey, dm, 0)
			var rt route.Route
			var err error
			if place == "dest-first" {
				rt, err = route.NewSendFirstMatch(rkey, rm, []*dest.Destination{d0})
			} else {
				rt, err = route.NewSendAllMatch(rkey, rm, []*dest.Destination{d0})
			}
			if err != nil {
				t.Fatalf("HARNESS-ERROR: %v", err)
			}
			tab.AddRoute(rt)
			defer rt.Shutdown()
			opts := map[string]string{}
			for k, v := range map[string]string{"prefix": f.Prefix, "notPrefix": f.NotPrefix, "sub": f.Sub, "notSub": f.NotSub, "regex": f.Regex, "notRegex": f.NotRegex} {
				if v != "" {
					opts[k] = v
				}
			}
			if place == "route-update" {
				if err := tab.UpdateRoute(rkey, opts); err != nil {
					t.Fatalf("UpdateRoute(%v): %v", opts, err)
				}
			}
			if place == "dest-update" {
				if err := tab.UpdateDestination(rkey, 0, opts); err != nil {
					t.Fatalf("UpdateDestination(%v): %v", opts, err)
				}
			}
			key := h.DestKey(rkey, 0)
			c0 := h.DestDropNoConn(key)
			if strings.HasPrefix(place, "aggregate") {
				// aggregation output enters through table.In; a catch-all capture
				// route placed after the real route tells us when each line has
				// been through the real route (routes are visited in order).
				cap := h.NewCaptureRoute("cap", matcher.Matcher{})
				tab.AddRoute(cap)
				for _, l := range lines {
					tab.In <- []byte(l.String())
				}
				deadline := time.Now().Add(20 * time.Second)
				for len(cap.Lines()) < len(lines) {
					if time.Now().After(deadline) {
						t.Fatalf("aggregate lines %v never reached the catch-all route (got %q)", lines, cap.Lines())
					}
					time.Sleep(50 * time.Microsecond)
				}
			} else {
				for _, l := range lines {
					tab.Dispatch([]byte(l.Wire()))
				}
			}
			rt.Flush()
			got := h.DestDropNoConn(key) - c0
			if int(got) != nMatch {
				t.Fatalf("%s filter %s: destination was handed %d of %v, want %d (%v)", place, f, got, lines, nMatch, wantMatch)
			}
			d := h.ReadTableCounters().Sub(before)
			if place == "route" || place == "route-update" {
				if int(d.Unroutable) != len(lines)-nMatch {
					t.Fatalf("%s filter %s: unroutable=%d for %v, want %d", place, f, d.Unroutable, lines, len(lines)-nMatch)
				}
			}

		case "agg", "agg-dropraw":
			out := make(chan []byte, 1000)
			tick := make(chan time.Time)
			cache := rapid.Bool().Draw(t, "cache")
			now := func() time.Time { return time.Unix(nowUnix+9, 0) }
			agg, err := aggregator.NewMocked("count", f.MustMatcher(), "aggout", cache, 10, 100, place == "agg-dropraw", out, 0, now, tick)
			if err != nil {
				t.Fatalf("HARNESS-ERROR: %v", err)
			}
			tab.AddAggregator(agg)
			cap := h.NewCaptureRoute("cap", matcher.Matcher{})
			tab.AddRoute(cap)
			// every name is sent twice: the second lookup may be served by the cache
			for rep := 0; rep < 2; rep++ {
				for _, l := range lines {
					tab.Dispatch([]byte(l.Wire()))
				}
			}
			h.AggBarrier(agg)
			tick <- time.Unix(nowUnix+100000, 0)
			h.AggBarrier(agg)
			agg.Shutdown()
			close(out)
			var outs []string
			for b := range out {
				outs = append(outs, string(b))
			}
			var wantOut []string
			if nMatch > 0 {
				wantOut = []string{fmt.Sprintf("aggout %f %d", float64(2*nMatch), nowUnix)}
			}
			if fmt.Sprint(outs) != fmt.Sprint(wantOut) {
				t.Fatalf("aggregation filter %s cache=%v: output %q want %q for lines %v (%v)", f, cache, outs, wantOut, lines, wantMatch)
			}
			var wantRaw []string
			for rep := 0; rep < 2; rep++ {
				for i, l := range lines {
					if place == "agg" || !wantMatch[i] {
						wantRaw = append(wantRaw, l.String())
					}
				}
			}
			if got := cap.Lines(); fmt.Sprint(got) != fmt.Sprint(wantRaw) {
				t.Fatalf("aggregation filter %s dropRaw=%v: raw lines forwarded %q want %q", f, place == "agg-dropraw", got, wantRaw)
			}
		}
		rec.Case(canon, nt, "place="+place, fmt.Sprintf("matches=%d/%d", nMatch, len(lines)))
	})
}

// ---- (iv) cache histories -----------------------------------------------------

// Lookups for one aggregator interleaved with clock jumps (>= 100 x wait) and
// ticks, so cache entries are created, refreshed and evicted.  Whatever the
// cache state, drop-raw consumption and the aggregated count must follow the
// reference filter.
func TestPropAggCache(t *testing.T) {
	rec := ev.Get("agg_cache")
	rapid.Check(t, func(t *rapid.T) {
		f := gen.GenFilter(t, "f", 30)
		if f.Regex == "" {
			f.Regex = gen.Regex(t, "aggre")
		}
		ref := f.Ref()
		pool := make([]string, rapid.IntRange(1, 5).Draw(t, "npool"))
		for i := range pool {
			pool[i] = strings.TrimLeft(gen.NameFor(t, f, "name"), ".")
			if pool[i] == "" {
				pool[i] = "q"
			}
		}
		clock := int64(nowUnix)
		now := func() time.Time { return time.Unix(clock, 0) }
		out := make(chan []byte, 10000)
		tick := make(chan time.Time)
		const wait = 5
		agg, err := aggregator.NewMocked("count", f.MustMatcher(), "aggout", true, 1, wait, true, out, 0, now, tick)
		if err != nil {
			t.Fatalf("HARNESS-ERROR: %v", err)
		}
		defer agg.Shutdown()
		// a sibling aggregation alive at the same time: same regex and output format, its own other options (every
		// aggregation answers for its own complete filter, whatever is shared or cached between them)
		sf := gen.GenFilter(t, "sibling", 40)
		sf.Regex = f.Regex
		sref := sf.Ref()
		sibling, err := aggregator.NewMocked("count", sf.MustMatcher(), "aggout", true, 1, wait, true, make(chan []byte, 10000), 0, now, make(chan time.Time))
		if err != nil {
			t.Fatalf("HARNESS-ERROR: %v", err)
		}
		defer sibling.Shutdown()
		siblingDiffers := false
		wantCount := map[int64]int{}
		gotCount := map[int64]int{}
		drain := func() {
			for {
				select {
				case b := <-out:
					var name string
					var v float64
					var ts int64
					if _, err := fmt.Sscanf(string(b), "%s %f %d", &name, &v, &ts); err != nil || name != "aggout" {
						t.Fatalf("unexpected aggregation output %q", b)
					}
					gotCount[ts] += int(v)
				default:
					return
				}
			}
		}
		evictions, hits := 0, 0
		seen := map[string]int64{}
		hist := []string{}
		t.Repeat(map[string]func(*rapid.T){
			"lookup": func(t *rapid.T) {
				name := rapid.SampledFrom(pool).Draw(t, "name")
				want := ref.Match(name)
				bucket := clock
				got := agg.AddMaybe([][]byte{[]byte(name), []byte("1"), []byte(fmt.Sprint(clock))}, 1, uint32(clock))
				h.AggBarrier(agg)
				if got != want {
					t.Fatalf("drop-raw aggregation %s consumed=%v for %q, reference filter says %v (history %v)", f, got, name, want, hist)
				}
				if rapid.Bool().Draw(t, "alsoSibling") {
					sw := sref.Match(name)
					sg := sibling.AddMaybe([][]byte{[]byte(name), []byte("1"), []byte(fmt.Sprint(clock))}, 1, uint32(clock))
					h.AggBarrier(sibling)
					if sg != sw {
						t.Fatalf("sibling drop-raw aggregation %s consumed=%v for %q, reference filter says %v (the other aggregation is %s; history %v)", sf, sg, name, sw, f, hist)
					}
					if sw != want {
						siblingDiffers = true
					}
					hist = append(hist, "sibling-lookup:"+name)
				}
				if want {
					wantCount[bucket]++
				}
				if _, ok := seen[name]; ok {
					hits++
				}
				seen[name] = clock
				hist = append(hist, "lookup:"+name)
			},
			"jump": func(t *rapid.T) {
				clock += int64(rapid.SampledFrom([]int{1, 10, wait * 100, wait*100 + 1, wait * 250}).Draw(t, "dt"))
				hist = append(hist, fmt.Sprintf("clock=%d", clock))
			},
			"tick": func(t *rapid.T) {
				tick <- time.Unix(clock, 0)
				h.AggBarrier(agg)
				for n, s := range seen {
					if s < clock-100*wait {
						delete(seen, n)
						evictions++
					}
				}
				drain()
				hist = append(hist, "tick")
			},
		})
		clock += 100000
		tick <- time.Unix(clock, 0)
		h.AggBarrier(agg)
		drain()
		if fmt.Sprint(wantCount) != fmt.Sprint(gotCount) {
			t.Fatalf("aggregation %s with cache: counts per bucket %v, reference %v (history %v)", f, gotCount, wantCount, hist)
		}
		rec.Case(f.String()+" "+strings.Join(hist, ","), evictions > 0 && hits > 0 && len(wantCount) > 0, fmt.Sprintf("evictions>0=%v", evictions > 0), fmt.Sprintf("hits>0=%v", hits > 0), fmt.Sprintf("sibling-verdict-differs=%v", siblingDiffers))
	})
}

// ---- native fuzz target (thorough tier): (regex, notRegex, prefix, name) as raw strings -------------------------

func FuzzMatcher(f *testing.F) {
	f.Add("^ab?c", "", "", "ac")
	f.Add("^foo|bar", "", "", "bar")
	f.Add(`^a\.*b`, "", "", "ab")
	f.Add("", "^foo?$|^x", "fo", "fo")
	f.Add(`^foo.*|bar`, "", "", "bar")
	f.Add(`(?i)^FOO`, `\d$`, "f", "foo1")
	f.Fuzz(func(t *testing.T, re, notRe, prefix, name string) {
		if len(re) > 60 || len(notRe) > 60 || len(name) > 80 || len(name) == 0 {
			t.Skip()
		}
		fl := gen.Filter{Prefix: prefix, Regex: re, NotRegex: notRe}
		m, err := fl.Matcher()
		if err != nil {
			t.Skip() // not a valid RE2 pattern
		}
		want := fl.Ref().Match(name)
		if got := m.Match([]byte(name)); got != want {
			t.Fatalf("matcher.Match disagrees with the documented conjunction: filter=%s name=%q got=%v want=%v", fl, name, got, want)
		}
		if want && !m.PreMatch([]byte(name)) {
			t.Fatalf("PreMatch discards a name the filter accepts: filter=%s name=%q", fl, name)
		}
	})
}
