package c03

import (
	"fmt"
	"testing"
	"time"

	"github.com/grafana/carbon-relay-ng/aggregator"
	"pgregory.net/rapid"

	"verifharness/internal/ev"
	"verifharness/internal/gen"
	"verifharness/internal/h"
)

// TestPropManyNamesAggregation: the aggregation filter at scale.  One cached drop-raw aggregation is asked about
// 100 000 - 300 000 distinct names (from a drawn template; about half of them match the regex), each once and a sample
// of them again: every verdict must be the filter's verdict for THAT name, whatever other names have been looked up
// before (anything that lets two names share a cache entry answers some of them with another name's verdict).
func TestPropManyNamesAggregation(t *testing.T) {
	rec := ev.Get("many_names_aggregation")
	caseNo := 0
	rapid.Check(t, func(t *rapid.T) {
		caseNo++
		n := rapid.SampledFrom([]int{100000, 200000, 300000}).Draw(t, "names")
		tmpl := rapid.SampledFrom([]string{"servers.web%d.load.shortterm", "c03m.%x.cpu.user", "app.%d.requests.p%d9"}).Draw(t, "template")
		re := rapid.SampledFrom([]string{`[02468]\.`, `^[a-z0-9]+\.[a-z]*[0-9a-f]*[13579bdf]\.`, `[0-4][0-9]?\.[a-z]+\.`}).Draw(t, "regex")
		f := gen.Filter{Regex: re}
		if rapid.Bool().Draw(t, "withPrefix") {
			f.NotSub = "77"
		}
		ref := f.Ref()
		clock := time.Unix(1500000000, 0)
		out := make(chan []byte, 16)
		go func() {
			for range out {
			}
		}()
		agg, err := aggregator.NewMocked("count", f.MustMatcher(), "aggout", true, 10, 100, true, out, 0, func() time.Time { return clock }, make(chan time.Time))
		if err != nil {
			t.Fatalf("HARNESS-ERROR: %v", err)
		}
		defer agg.Shutdown()
		name := func(i int) string {
			if tmpl == "app.%d.requests.p%d9" {
				return fmt.Sprintf(tmpl, i, i%7)
			}
			return fmt.Sprintf(tmpl, uint32(i)*2654435761)
		}
		ask := func(i int, when string) {
			nm := name(i)
			want := ref.Match(nm)
			got := agg.AddMaybe([][]byte{[]byte(nm), []byte("1"), []byte("1500000000")}, 1, 1500000000)
			if got != want {
				t.Fatalf("%s: cached drop-raw aggregation %s consumed=%v for %q (name %d of %d), its filter says %v", when, f, got, nm, i, n, want)
			}
		}
		matched := 0
		for i := 0; i < n; i++ {
			if ref.Match(name(i)) {
				matched++
			}
			ask(i, "first lookup")
		}
		for i := 0; i < n; i += 97 {
			ask(i, "second lookup")
		}
		h.AggBarrier(agg)
		rec.Case(fmt.Sprintf("%d names like %q, filter %s: %d match", n, name(1), f, matched), matched > n/10 && matched < n*9/10, fmt.Sprintf("names=%d", n))
		rec.Num("names_looked_up", int64(n))
	})
}
