// C04 — forwarded line = rewritten name + untouched value/timestamp; buffers isolated.
package c04

import (
	"bytes"
	"fmt"
	"strings"
	"testing"
	"time"

	"github.com/grafana/carbon-relay-ng/aggregator"
	dest "github.com/grafana/carbon-relay-ng/destination"
	"github.com/grafana/carbon-relay-ng/matcher"
	"github.com/grafana/carbon-relay-ng/route"
	"pgregory.net/rapid"

	"verifharness/internal/ep"
	"verifharness/internal/ev"
	"verifharness/internal/gen"
	"verifharness/internal/h"
	"verifharness/internal/ref"
)

func TestMain(m *testing.M) { h.Init(); ev.Main(m) }

// one long-lived real route with a live loopback endpoint, shared by all cases
var (
	endpoint *ep.Endpoint
	liveRt   route.Route
	liveKey  string
	consumed int // bytes of the endpoint stream already attributed to earlier cases
	sentSeq  int
)

func liveRoute(t *rapid.T) route.Route {
	if liveRt != nil {
		return liveRt
	}
	endpoint = ep.New()
	d, err := dest.New("c04live", matcher.Matcher{}, endpoint.Addr, "/nonexistent-spool", false, false,
		2*time.Millisecond, 50*time.Millisecond, 50000, 64, 10, 1000, 1000, time.Hour, time.Millisecond, time.Millisecond)
	if err != nil {
		t.Fatalf("HARNESS-ERROR: %v", err)
	}
	liveKey = d.Key
	liveRt, err = route.NewSendAllMatch("c04live", matcher.Matcher{}, []*dest.Destination{d})
	if err != nil {
		t.Fatalf("HARNESS-ERROR: %v", err)
	}
	if !endpoint.WaitAccept(1, 10*time.Second) {
		t.Fatalf("HARNESS-ERROR: destination never connected to the loopback endpoint")
	}
	// the destination marks itself online asynchronously after the accept: push sentinels until one arrives
	for i := 0; ; i++ {
		liveRt.Dispatch([]byte("c04.warmup 0 0"))
		time.Sleep(2 * time.Millisecond)
		if endpoint.Total() > 0 {
			break
		}
		if i > 5000 {
			t.Fatalf("HARNESS-ERROR: live destination never forwarded anything")
		}
	}
	time.Sleep(20 * time.Millisecond)
	return liveRt
}

func genLayout(t *rapid.T, name, val, ts string) string {
	sep := func(label string, allowEmpty bool) string {
		k := rapid.IntRange(0, 9).Draw(t, label)
		switch {
		case k <= 5:
			if allowEmpty {
				return ""
			}
			return " "
		case k == 6:
			return "\t"
		case k == 7:
			return "  "
		case k == 8:
			return " \t "
		default:
			if allowEmpty {
				return " "
			}
			return "\v"
		}
	}
	return sep("lead", true) + name + sep("s1", false) + val + sep("s2", false) + ts + sep("trail", true)
}

func TestPropForwardedLine(t *testing.T) {
	rec := ev.Get("forwarded_line")
	rapid.Check(t, func(t *rapid.T) {
		live := liveRoute(t)
		tab := h.NewTable(false)
		nrw := rapid.IntRange(0, 4).Draw(t, "nrw")
		var rws []ref.RW
		repeated := false
		for i := 0; i < nrw; i++ {
			r := ref.GenRW(t)
			if i > 0 && rapid.IntRange(0, 3).Draw(t, "repeatrule") == 0 {
				r = rws[rapid.IntRange(0, i-1).Draw(t, "which")] // the same rule again: a list may hold a rule twice (applied twice)
				repeated = true
			}
			rw, err := r.Real()
			if err != nil {
				t.Fatalf("HARNESS-ERROR: rewriter %s refused: %v", r, err)
			}
			tab.AddRewriter(rw)
			rws = append(rws, r)
		}
		// a buffered aggregator: messages sit in its inbox after Dispatch returned
		aggOut := make(chan []byte, 10000)
		tick := make(chan time.Time)
		am, _ := matcher.New("", "", "", "", "^(.*)$", "")
		now := func() time.Time { return time.Unix(1, 0) } // with wait=1 every timestamp >= 1 opens a bucket
		agg, err := aggregator.NewMocked("count", am, "agg.$1", rapid.Bool().Draw(t, "cache"), 1, 1, false, aggOut, 500, now, tick)
		if err != nil {
			t.Fatalf("HARNESS-ERROR: %v", err)
		}
		defer agg.Shutdown()
		aggIn0 := h.Count("unit=Metric.direction=in.aggregator=" + agg.Key)
		tab.AddAggregator(agg)
		caps := []*h.CaptureRoute{h.NewCaptureRoute("cap0", matcher.Matcher{}), h.NewCaptureRoute("cap1", matcher.Matcher{})}
		tab.AddRoute(caps[0])
		tab.AddRoute(live)
		tab.AddRoute(caps[1])

		nl := rapid.IntRange(1, 8).Draw(t, "nlines")
		// one backing array reused for every line, like a bufio.Scanner would
		backing := make([]byte, 0, 256)
		slow0 := h.Count("dest=" + liveKey + ".unit=Metric.action=drop.reason=slow_conn")
		down0 := h.DestDropNoConn(liveKey)
		var want []string
		var wantAgg = map[string]int{}
		changed, odd, reused := false, false, false
		var inputs []string
		for i := 0; i < nl; i++ {
			name := gen.Name(t, "name")
			if len(rws) > 0 && rapid.Bool().Draw(t, "rep") {
				o := rws[0].Old
				if !strings.HasPrefix(o, "/") {
					name = o + "." + name + "." + o + o // repeated occurrences of old
				}
			}
			dot := rapid.IntRange(0, 9).Draw(t, "leadingdot") == 0
			if dot {
				name = "." + name
			}
			val := gen.ValueToken(t, "val")
			ts := gen.TsToken(t, "ts")
			line := genLayout(t, name, val, ts)
			inputs = append(inputs, line)
			if line != name+" "+val+" "+ts {
				odd = true
			}
			newName := name
			for _, r := range rws {
				newName = r.Do(newName)
			}
			if newName != name {
				changed = true
			}
			want = append(want, newName+" "+val+" "+ts)
			wantAgg["agg."+newName]++
			buf := append(backing[:0], line...)
			snapshot := append([]byte(nil), buf...)
			tab.Dispatch(buf)
			if !bytes.Equal(buf, snapshot) {
				t.Fatalf("Dispatch modified the caller's buffer: before %q after %q (rewriters %v)", snapshot, buf, rws)
			}
			// the reader reuses its buffer right away
			for j := range buf {
				buf[j] = '#'
			}
			if i > 0 {
				reused = true
			}
		}
		// sentinel through the live route, to know everything before it has arrived
		sentSeq++
		sentinel := fmt.Sprintf("c04.sentinel.%d 1 1", sentSeq)
		live.Dispatch([]byte(sentinel))
		deadline := time.Now().Add(20 * time.Second)
		var stream []byte
		for {
			all := endpoint.All()
			stream = all[min(consumed, len(all)):]
			if idx := bytes.Index(stream, []byte(sentinel+"\n")); idx >= 0 {
				stream = stream[:idx]
				consumed += idx + len(sentinel) + 1
				break
			}
			if time.Now().After(deadline) {
				t.Fatalf("sentinel never arrived at the endpoint; stream so far %q", stream)
			}
			time.Sleep(200 * time.Microsecond)
		}
		if s := h.Count("dest="+liveKey+".unit=Metric.action=drop.reason=slow_conn") - slow0; s != 0 {
			t.Skip("connection was slow; lines were (legitimately) dropped")
		}
		if s := h.DestDropNoConn(liveKey) - down0; s != 0 {
			t.Fatalf("HARNESS-ERROR: live destination was down during the case")
		}
		// (a)/(c): every recipient received exactly the expected lines
		eq := func(got, want string) bool {
			// a name that arrived with one leading dot may be forwarded with or without it
			return got == want || (strings.HasPrefix(want, ".") && got == want[1:])
		}
		for ci, c := range caps {
			got := c.Lines()
			if len(got) != len(want) {
				t.Fatalf("capture route %d received %d lines, want %d: %q vs %q (inputs %q rewriters %v)", ci, len(got), len(want), got, want, inputs, rws)
			}
			for i := range want {
				if !eq(got[i], want[i]) {
					t.Fatalf("capture route %d line %d: %q, want %q (input %q, rewriters %v)", ci, i, got[i], want[i], inputs[i], rws)
				}
			}
		}
		gotStream := strings.Split(strings.TrimSuffix(string(stream), "\n"), "\n")
		if len(stream) == 0 {
			gotStream = nil
		}
		// warm-up lines of the first case may precede ours
		for len(gotStream) > 0 && strings.HasPrefix(gotStream[0], "c04.warmup") {
			gotStream = gotStream[1:]
		}
		if len(gotStream) != len(want) {
			t.Fatalf("endpoint received %d lines, want %d: %q vs %q (rewriters %v)", len(gotStream), len(want), gotStream, want, rws)
		}
		for i := range want {
			if !eq(gotStream[i], want[i]) {
				t.Fatalf("endpoint line %d: %q, want %q (input %q, rewriters %v)", i, gotStream[i], want[i], inputs[i], rws)
			}
			if gotStream[i] != caps[0].Lines()[i] {
				t.Fatalf("recipients differ: endpoint %q vs capture route %q", gotStream[i], caps[0].Lines()[i])
			}
		}
		// (d): retained slices never altered afterwards
		for ci, c := range caps {
			for i, r := range c.Got {
				if !bytes.Equal(r.Copy, r.Orig) {
					t.Fatalf("the line delivered to capture route %d was altered after delivery: was %q now %q (input %q)", ci, r.Copy, r.Orig, inputs[i])
				}
			}
		}
		// the aggregation saw the rewritten names (its messages were queued while the buffer was reused)
		// the aggregation's inbox is buffered: wait until it has taken every line (its in-counter), then close the buckets
		aggIn := "unit=Metric.direction=in.aggregator=" + agg.Key
		for dl := time.Now().Add(20 * time.Second); h.Count(aggIn)-aggIn0 < int64(len(want)) && time.Now().Before(dl); {
			time.Sleep(100 * time.Microsecond)
		}
		tick <- time.Unix(5000000000, 0)
		h.AggBarrier(agg)
		gotAgg := map[string]int{}
	drain:
		for {
			select {
			case b := <-aggOut:
				f := strings.Fields(string(b))
				var v float64
				fmt.Sscanf(f[1], "%g", &v)
				gotAgg[f[0]] += int(v)
			default:
				break drain
			}
		}
		norm := func(m map[string]int) map[string]int {
			o := map[string]int{}
			for k, v := range m {
				o[strings.Replace(k, "agg..", "agg.", 1)] += v // leading dot of the name kept or not
			}
			return o
		}
		if fmt.Sprint(norm(gotAgg)) != fmt.Sprint(norm(wantAgg)) {
			t.Fatalf("aggregation saw names %v, want %v (inputs %q rewriters %v)", gotAgg, wantAgg, inputs, rws)
		}
		rec.Case(fmt.Sprintf("%v | %q", rws, inputs), changed || odd || reused, fmt.Sprintf("rewritten=%v", changed), fmt.Sprintf("odd-whitespace=%v", odd), fmt.Sprintf("nrw=%d", nrw), fmt.Sprintf("repeated-rule=%v", repeated))
	})
}

// The rewriter alone against the reference (cheap, many cases).
func TestPropRewriter(t *testing.T) {
	rec := ev.Get("rewriter")
	rapid.Check(t, func(t *rapid.T) {
		r := ref.GenRW(t)
		rw, err := r.Real()
		if err != nil {
			t.Fatalf("HARNESS-ERROR: rewriter %s refused: %v", r, err)
		}
		for i := 0; i < 5; i++ {
			name := gen.Name(t, "name")
			if !strings.HasPrefix(r.Old, "/") && rapid.Bool().Draw(t, "rep") {
				name = r.Old + name + r.Old + "." + r.Old
			}
			in := []byte(name)
			got := string(rw.Do(in))
			if string(in) != name {
				t.Fatalf("rewriter %s modified its input %q -> %q", r, name, in)
			}
			want := r.Do(name)
			if got != want {
				t.Fatalf("rewriter %s on %q: got %q, documented behaviour gives %q", r, name, got, want)
			}
			rec.Case(r.String()+" "+name, got != name, fmt.Sprintf("regex=%v", strings.HasPrefix(r.Old, "/")), fmt.Sprintf("not-set=%v", r.Not != ""))
		}
	})
}
