// C04 — from the wire to the routes with several senders at once: 2-4 connections are served at the same time by ONE
// plain-text handler (as the listener does, one goroutine per connection), their bytes arriving in small pieces.  What
// the routes receive must be, as a multiset, exactly "rewritten name + value + timestamp" of every line some sender
// wrote: nothing lost, nothing twice, and no line that nobody sent (a name from one sender with the value of another).
package c04

import (
	"fmt"
	"io"
	"sort"
	"strings"
	"sync"
	"testing"

	"github.com/grafana/carbon-relay-ng/input"
	"github.com/grafana/carbon-relay-ng/matcher"
	"pgregory.net/rapid"

	"verifharness/internal/ev"
	"verifharness/internal/h"
	"verifharness/internal/ref"
)

type pieces struct {
	data []byte
	size int
	pos  int
}

func (p *pieces) Read(b []byte) (int, error) {
	if p.pos >= len(p.data) {
		return 0, io.EOF
	}
	n := p.size
	if n > len(b) {
		n = len(b)
	}
	if n > len(p.data)-p.pos {
		n = len(p.data) - p.pos
	}
	copy(b, p.data[p.pos:p.pos+n])
	p.pos += n
	return n, nil
}

var sendSeq int

func TestPropInputSenders(t *testing.T) {
	rec := ev.Get("input_senders")
	rapid.Check(t, func(t *rapid.T) {
		sendSeq++
		tab := h.NewTable(false)
		var rws []ref.RW
		for i, n := 0, rapid.IntRange(0, 3).Draw(t, "nrw"); i < n; i++ {
			r := ref.GenRW(t)
			rw, err := r.Real()
			if err != nil {
				t.Fatalf("HARNESS-ERROR: rewriter %s refused: %v", r, err)
			}
			tab.AddRewriter(rw)
			rws = append(rws, r)
		}
		cap := h.NewCaptureRoute("cap", matcher.Matcher{})
		tab.AddRoute(cap)
		handler := input.NewPlain(tab)
		nconn := rapid.IntRange(2, 4).Draw(t, "nconn")
		var want []string
		streams := make([]*pieces, nconn)
		total := 0
		for c := 0; c < nconn; c++ {
			var sb strings.Builder
			for i, n := 0, rapid.SampledFrom([]int{3, 40, 400}).Draw(t, "nlines"); i < n; i++ {
				name := fmt.Sprintf("dc%d.%s%02d.%s", c, rapid.SampledFrom([]string{"web", "db", "foo.bar", "srv"}).Draw(t, "kind"), i%50, rapid.SampledFrom([]string{"cpu.idle", "disk.used.bytes", "x"}).Draw(t, "leaf"))
				val := fmt.Sprintf("%d.%d", c, i)
				ts := fmt.Sprintf("17%02d%06d", c, i)
				fmt.Fprintf(&sb, "%s %s %s\n", name, val, ts)
				nn := name
				for _, r := range rws {
					nn = r.Do(nn)
				}
				if nn != "" {
					want = append(want, nn+" "+val+" "+ts)
				}
				total++
			}
			streams[c] = &pieces{data: []byte(sb.String()), size: rapid.SampledFrom([]int{1, 7, 100, 1500, 4096}).Draw(t, "piece")}
		}
		var wg sync.WaitGroup
		start := make(chan struct{})
		errs := make([]error, nconn)
		for c := range streams {
			wg.Add(1)
			go func(c int) {
				defer wg.Done()
				<-start
				errs[c] = handler.Handle(streams[c])
			}(c)
		}
		close(start)
		wg.Wait()
		for c, err := range errs {
			if err != nil {
				t.Fatalf("connection %d ended with an error: %v", c, err)
			}
		}
		got := cap.Lines()
		var gotF []string
		for _, g := range got {
			if !strings.HasPrefix(g, " ") { // (a name rewritten to nothing is outside the property)
				gotF = append(gotF, g)
			}
		}
		sort.Strings(gotF)
		sort.Strings(want)
		{
			// compare as multisets
			i, j := 0, 0
			for i < len(gotF) && j < len(want) && gotF[i] == want[j] {
				i++
				j++
			}
			if i < len(gotF) || j < len(want) {
				g, w := "(nothing more)", "(nothing more)"
				if i < len(gotF) {
					g = gotF[i]
				}
				if j < len(want) {
					w = want[j]
				}
				t.Fatalf("%d senders at once on one plain-text handler wrote %d lines (rewriters %v); the routes received %d lines; first difference in sorted order: received %q, written (and rewritten) %q", nconn, total, rws, len(gotF), g, w)
			}
		}
		for _, r := range cap.Got {
			if string(r.Copy) != string(r.Orig) {
				t.Fatalf("a line delivered as %q was altered afterwards: the same slice now reads %q", r.Copy, r.Orig)
			}
		}
		rec.Case(fmt.Sprintf("nconn=%d total=%d rws=%v", nconn, total, rws), total > 20, fmt.Sprintf("senders=%d", nconn), fmt.Sprintf("rewriters=%d", len(rws)))
	})
}
