// C04 — "the copy delivered to several routes, destinations and aggregations is ... never altered afterwards", with an
// aggregation that lags: its worker is busy flushing (the consumer of its output is slow) while a burst of lines is handed
// in, so the burst sits in the aggregation's inbox while the relay processes the following lines and while the callers
// overwrite their input buffers.  What the aggregation finally computes must be what was handed in.
package c04

import (
	"fmt"
	"sort"
	"strings"
	"testing"
	"time"

	"github.com/grafana/carbon-relay-ng/aggregator"
	"github.com/grafana/carbon-relay-ng/matcher"
	"pgregory.net/rapid"

	"verifharness/internal/ev"
	"verifharness/internal/h"
	"verifharness/internal/ref"
)

var lagSeq int

func TestPropLaggingAggregation(t *testing.T) {
	rec := ev.Get("lagging_aggregation")
	rapid.Check(t, func(t *rapid.T) {
		lagSeq++
		const T = 1500000000
		tab := h.NewTable(false)
		dropRaw := rapid.Bool().Draw(t, "dropRaw")
		cache := rapid.Bool().Draw(t, "cache")
		inBuf := rapid.SampledFrom([]int{4, 50, 2000}).Draw(t, "inbuf")
		fn := rapid.SampledFrom([]string{"sum", "count", "max"}).Draw(t, "fn")
		am, _ := matcher.New("", "", "", "", `^lag\.(.*)`, "")
		out := make(chan []byte) // unbuffered: the worker stays inside Flush until the harness reads
		tick := make(chan time.Time)
		agg, err := aggregator.NewMocked(fn, am, "c04lag.$1", cache, 10, 20, dropRaw, out, inBuf, func() time.Time { return time.Unix(T, 0) }, tick)
		if err != nil {
			t.Fatalf("HARNESS-ERROR: %v", err)
		}
		tab.AddAggregator(agg)
		// rewriters that leave these names alone (or not)
		var rws []ref.RW
		for i, n := 0, rapid.IntRange(0, 2).Draw(t, "nrw"); i < n; i++ {
			r := rapid.SampledFrom([]ref.RW{{Old: "zzz", New: "y", Max: -1}, {Old: "/qqq$/", New: "", Max: -1}, {Old: "host", New: "h", Max: 1}, {Old: "/\\.cpu$/", New: ".c", Max: -1}}).Draw(t, "rw")
			real, err := r.Real()
			if err != nil {
				t.Fatalf("HARNESS-ERROR: %v", err)
			}
			tab.AddRewriter(real)
			rws = append(rws, r)
		}
		rewrite := func(n string) string {
			for _, r := range rws {
				n = r.Do(n)
			}
			return n
		}
		cap := h.NewCaptureRoute("cap", matcher.Matcher{})
		tab.AddRoute(cap)
		inCounter := "unit=Metric.direction=in.aggregator=" + agg.Key
		in0 := h.Count(inCounter)
		waitIn := func(n int64, what string) {
			for dl := time.Now().Add(20 * time.Second); h.Count(inCounter)-in0 < n; {
				if time.Now().After(dl) {
					t.Fatalf("HARNESS-ERROR: %s: aggregation took %d of %d points", what, h.Count(inCounter)-in0, n)
				}
				time.Sleep(50 * time.Microsecond)
			}
		}
		// 1. a primer point, then a tick that flushes it: the worker blocks handing the output line over
		primer := fmt.Sprintf("lag.primer%d 1 %d", lagSeq, T-5)
		tab.Dispatch([]byte(primer))
		waitIn(1, "primer")
		tick <- time.Unix(T+10, 0) // (taken by the worker: it is now inside Flush, blocked on the unread output)
		// 2. the burst, each line from the same reused caller buffer
		burst := rapid.IntRange(2, inBuf).Draw(t, "burst")
		if burst > 300 {
			burst = 300
		}
		type ln struct {
			name string
			val  int
		}
		var lines []ln
		buf := make([]byte, 0, 256)
		wantAgg := map[string][]float64{}
		var wantRaw []string
		for i := 0; i < burst; i++ {
			var name string
			switch rapid.IntRange(0, 5).Draw(t, "kind") {
			case 0:
				name = fmt.Sprintf("other.%d.host%d.cpu", lagSeq, i)
			case 1:
				if len(lines) > 0 {
					name = lines[rapid.IntRange(0, len(lines)-1).Draw(t, "again")].name // a second point for an earlier series
					break
				}
				fallthrough
			default:
				name = fmt.Sprintf("lag.%d.host%d.%s", lagSeq, i, rapid.SampledFrom([]string{"cpu", "mem.used", "load", strings.Repeat("x", 40)}).Draw(t, "leaf"))
			}
			val := rapid.IntRange(-5, 1000).Draw(t, "val")
			lines = append(lines, ln{name, val})
			text := fmt.Sprintf("%s %d %d", name, val, T)
			buf = append(buf[:0], text...)
			tab.Dispatch(buf)
			for k := range buf { // the caller's buffer is reused at once
				buf[k] = '#'
			}
			nn := rewrite(name)
			if strings.HasPrefix(nn, "lag.") {
				wantAgg["c04lag."+strings.TrimPrefix(nn, "lag.")] = append(wantAgg["c04lag."+strings.TrimPrefix(nn, "lag.")], float64(val))
				if !dropRaw {
					wantRaw = append(wantRaw, fmt.Sprintf("%s %d %d", nn, val, T))
				}
			} else {
				wantRaw = append(wantRaw, fmt.Sprintf("%s %d %d", nn, val, T))
			}
		}
		if n := h.Count(inCounter) - in0; n != 1 {
			t.Fatalf("HARNESS-ERROR: the aggregation worker was meant to be busy flushing during the burst, but it took %d points", n)
		}
		// 3. the consumer of the aggregation's output comes back
		var outs []string
		collected := make(chan struct{})
		stop := make(chan struct{})
		go func() {
			defer close(collected)
			for {
				select {
				case b := <-out:
					outs = append(outs, string(b))
				case <-stop:
					return
				}
			}
		}()
		nAgg := 0
		for _, v := range wantAgg {
			nAgg += len(v)
		}
		// (bounded wait, no verdict here: if the aggregation never counts that many points the comparison below says why)
		for dl := time.Now().Add(3 * time.Second); h.Count(inCounter)-in0 < int64(1+nAgg) && time.Now().Before(dl); {
			time.Sleep(50 * time.Microsecond)
		}
		tick <- time.Unix(T+1000, 0)
		h.AggBarrier(agg) // (served by the same loop after the flush)
		close(stop)
		<-collected
		agg.Shutdown()
		var want []string
		for k, vs := range wantAgg {
			var v float64
			switch fn {
			case "sum":
				for _, x := range vs {
					v += x
				}
			case "count":
				v = float64(len(vs))
			case "max":
				v = vs[0]
				for _, x := range vs {
					if x > v {
						v = x
					}
				}
			}
			want = append(want, fmt.Sprintf("%s %f %d", k, v, T))
		}
		var got []string
		for _, o := range outs {
			if !strings.Contains(o, "primer") {
				got = append(got, o)
			}
		}
		sort.Strings(got)
		sort.Strings(want)
		ctx := fmt.Sprintf("aggregation %s regex=^lag\\.(.*) -> c04lag.$1 dropRaw=%v cache=%v inbox=%d, rewriters %v; a burst of %d lines handed in while the aggregation was busy flushing: %v", fn, dropRaw, cache, inBuf, rws, burst, lines)
		if fmt.Sprint(got) != fmt.Sprint(want) {
			t.Fatalf("the aggregation emitted\n  %q\nthe lines handed in give\n  %q\n%s", got, want, ctx)
		}
		rawGot := cap.Lines()
		var rawF []string
		for _, l := range rawGot {
			if !strings.Contains(l, "primer") {
				rawF = append(rawF, l)
			}
		}
		if fmt.Sprint(rawF) != fmt.Sprint(wantRaw) {
			t.Fatalf("the route received\n  %q\nwant\n  %q\n%s", rawF, wantRaw, ctx)
		}
		rec.Case(ctx, burst >= 3 && nAgg >= 2, fmt.Sprintf("dropRaw=%v", dropRaw), fmt.Sprintf("cache=%v", cache), fmt.Sprintf("inbox=%d", inBuf), fmt.Sprintf("rewriters=%d", len(rws)))
	})
}
