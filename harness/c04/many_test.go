package c04

import (
	"fmt"
	"testing"

	"pgregory.net/rapid"

	"verifharness/internal/ev"
	"verifharness/internal/ref"
)

// TestPropManyNamesRewriter: rewriting at scale.  One rewriter rule (regex or literal, from the usual generator) is applied
// to 100 000 - 300 000 distinct names, each once and a sample of them again, through the very same rule object: every
// result must be the reference rewriter's result for THAT name (whatever the rule remembers about earlier names).
func TestPropManyNamesRewriter(t *testing.T) {
	rec := ev.Get("many_names_rewriter")
	rapid.Check(t, func(t *rapid.T) {
		n := rapid.SampledFrom([]int{100000, 200000, 300000}).Draw(t, "names")
		tmpl := rapid.SampledFrom([]string{"servers.web%d.disk.sda.io_time", "foo.%x.bar.foo", "app%d.requests_count"}).Draw(t, "template")
		var r ref.RW
		switch rapid.IntRange(0, 3).Draw(t, "rule") {
		case 0:
			r = ref.RW{Old: `/^servers\./`, New: "hosts.", Max: -1}
		case 1:
			r = ref.RW{Old: `/([a-z]+)([0-9]+)/`, New: "${2}_${1}", Max: -1}
		case 2:
			r = ref.RW{Old: "foo", New: "F", Max: 1}
		default:
			r = ref.GenRW(t)
		}
		rw, err := r.Real()
		if err != nil {
			t.Fatalf("HARNESS-ERROR: %v", err)
		}
		name := func(i int) string { return fmt.Sprintf(tmpl, uint32(i)*2654435761) }
		changed := 0
		ask := func(i int, when string) {
			nm := name(i)
			want := r.Do(nm)
			got := string(rw.Do([]byte(nm)))
			if got != want {
				t.Fatalf("%s: rewriter %s turned %q (name %d of %d) into %q, the reference says %q", when, r, nm, i, n, got, want)
			}
			if want != nm {
				changed++
			}
		}
		for i := 0; i < n; i++ {
			ask(i, "first use")
		}
		for i := 0; i < n; i += 89 {
			ask(i, "second use")
		}
		rec.Case(fmt.Sprintf("%d names like %q through %s", n, name(1), r), changed > n/10, fmt.Sprintf("names=%d", n))
		rec.Num("names_rewritten", int64(n))
	})
}
