// C05 (layer 2) — a real destination connected to a healthy loopback endpoint.
package c05

import (
	"bytes"
	"encoding/binary"
	"fmt"
	"strings"
	"testing"
	"time"

	ogorek "github.com/kisielk/og-rek"
	"pgregory.net/rapid"

	"verifharness/internal/dh"
	"verifharness/internal/ep"
	"verifharness/internal/ev"
	"verifharness/internal/h"
)

type lineT struct {
	text string
	name string
	val  float64
	ts   uint32
}

func mkLine(i, length int) lineT {
	// "name value ts" of exactly `length` bytes when length >= 5
	ts := uint32(1500000000 + i)
	val := float64(i%97) + 0.5
	tail := fmt.Sprintf(" %g %d", val, ts)
	name := fmt.Sprintf("m%d", i)
	if pad := length - len(name) - len(tail); pad > 0 {
		name += "." + strings.Repeat("x", pad-1)
		if pad == 1 {
			name = name[:len(name)-1] + "y"
		}
	}
	if length < 12 {
		// very short lines: single-digit fields
		name = string(rune('a' + i%26))
		l := lineT{text: fmt.Sprintf("%s %d %d", name, i%10, i%10), name: name, val: float64(i % 10), ts: uint32(i % 10)}
		return l
	}
	return lineT{text: name + tail, name: name, val: val, ts: ts}
}

// parsePickleStream splits [4-byte BE length][payload] frames and decodes each payload.
func parsePickleStream(b []byte) (names []string, recs []string, err error) {
	for len(b) > 0 {
		if len(b) < 4 {
			return names, recs, fmt.Errorf("trailing %d bytes are not a frame header", len(b))
		}
		n := int(binary.BigEndian.Uint32(b))
		if n > len(b)-4 {
			return names, recs, fmt.Errorf("frame of %d bytes announced, %d left (length prefix wrong or frame torn)", n, len(b)-4)
		}
		payload := b[4 : 4+n]
		b = b[4+n:]
		v, derr := ogorek.NewDecoder(bytes.NewReader(payload)).Decode()
		if derr != nil {
			return names, recs, fmt.Errorf("payload does not unpickle: %v", derr)
		}
		list, ok := v.([]interface{})
		if !ok || len(list) != 1 {
			return names, recs, fmt.Errorf("payload is %T, want a list with one datapoint", v)
		}
		tup, ok := list[0].(ogorek.Tuple)
		if !ok || len(tup) != 2 {
			return names, recs, fmt.Errorf("datapoint is %T", list[0])
		}
		name, _ := tup[0].(string)
		data, ok := tup[1].(ogorek.Tuple)
		if !ok || len(data) != 2 {
			return names, recs, fmt.Errorf("datapoint data is %T", tup[1])
		}
		names = append(names, name)
		recs = append(recs, fmt.Sprintf("%s|%v|%v", name, data[0], data[1]))
	}
	return names, recs, nil
}

func TestPropHealthyConn(t *testing.T) {
	rec := ev.Get("healthy_conn")
	rapid.Check(t, func(t *rapid.T) {
		iobuf := rapid.SampledFrom([]int{1, 2, 7, 16, 64, 100, 512, 4096}).Draw(t, "iobuf")
		connbuf := rapid.SampledFrom([]int{0, 1, 2, 8, 64, 1000}).Draw(t, "connbuf")
		flush := time.Duration(rapid.SampledFrom([]int{1, 2, 5, 20, 50}).Draw(t, "flushMs")) * time.Millisecond
		pickle := rapid.IntRange(0, 2).Draw(t, "pickle") == 0
		lvl, restore := h.DrawLogLevel(t)
		defer restore()
		e := ep.New()
		defer e.Close()
		x := dh.Start(dh.Opts{Route: "c05", Addr: e.Addr, Pickle: pickle, Flush: flush, ConnBuf: connbuf, IoBuf: iobuf})
		defer x.Stop(20*time.Second, e)
		if _, ok := x.WaitUp(e, 20*time.Second); !ok {
			t.Fatalf("HARNESS-ERROR: destination never came up against a healthy endpoint (iobuf=%d connbuf=%d flush=%v pickle=%v): %s", iobuf, connbuf, flush, pickle, x.LastDiag)
		}
		maxLines := 300
		if iobuf >= 4096 {
			maxLines = 80 // keep the volume of very long lines bounded
		}
		n := rapid.IntRange(1, maxLines).Draw(t, "nlines")
		var handed []lineT
		longer, shorter, paused := false, false, false
		flushes := 0
		t0 := time.Now()
		for i := 0; i < n; i++ {
			var l int
			switch rapid.IntRange(0, 4).Draw(t, "lenclass") {
			case 0:
				l = 5
			case 1:
				l = rapid.IntRange(12, 40).Draw(t, "len")
			case 2:
				l = rapid.IntRange(iobuf, 5*iobuf+12).Draw(t, "len")
			case 3:
				l = iobuf + rapid.IntRange(-2, 2).Draw(t, "len") // around the buffer size, with and without the newline fitting
			default:
				l = rapid.IntRange(12, 120).Draw(t, "len")
			}
			if l > 21000 {
				l = 21000
			}
			ln := mkLine(i, l)
			handed = append(handed, ln)
			if len(ln.text) > iobuf {
				longer = true
			}
			if len(ln.text) < iobuf {
				shorter = true
			}
			x.Hand([]byte(ln.text))
			if rapid.IntRange(0, 24).Draw(t, "manualFlush") == 0 {
				// a flush on request (what Shutdown does first, and Destination.Flush) while lines may still be queued in
				// front of the writer: whatever it writes out must be the same records, in the same framing
				x.D.Flush()
				flushes++
			}
			if rapid.IntRange(0, 19).Draw(t, "pause") == 0 {
				time.Sleep(time.Duration(rapid.IntRange(1, 3).Draw(t, "pauseMs")) * flush / 2)
				paused = true
			}
		}
		contains := dh.PlainContains
		if pickle {
			contains = dh.NameContains
		}
		_, sent, ok := x.PushUntilSeen("end", e.All, contains, 4*flush+10*time.Millisecond, 30*time.Second)
		if !ok {
			t.Fatalf("healthy connection: a line handed after %d others never arrived within 30s (iobuf=%d connbuf=%d flush=%s pickle=%v; slow_conn=%d conn_down=%d)", n, iobuf, connbuf, flush, pickle, x.SlowConn(), x.ConnDown())
		}
		// Several markers may have been handed before one of them showed up; the later ones can still be in flight.
		// Everything is settled once #received + #counted-as-dropped reaches #handed: wait for that (bounded), then judge.
		nHanded := len(handed) + len(sent)
		var gotF []string
		var missing int
		evaluate := func() string {
			x.D.Flush()
			stream := e.All()
			var got []string
			if pickle {
				_, recs, err := parsePickleStream(stream)
				if err != nil {
					return fmt.Sprintf("pickle stream is not a sequence of length-prefixed pickles: %v", err)
				}
				got = recs
			} else {
				if len(stream) > 0 && stream[len(stream)-1] != '\n' {
					return fmt.Sprintf("plain stream does not end with a newline after a flush: ...%q", stream[max(0, len(stream)-60):])
				}
				got = strings.Split(strings.TrimSuffix(string(stream), "\n"), "\n")
			}
			gotF = gotF[:0]
			for _, g := range got {
				if strings.HasPrefix(g, "verif.warm") {
					continue
				}
				gotF = append(gotF, g)
			}
			missing = nHanded - len(gotF)
			if int64(missing) != x.SlowConn() {
				return fmt.Sprintf("%d lines handed, %d received: %d absent, but the slow-connection drop counter moved by %d (conn_down=%d bad_pickle=%d)", nHanded, len(gotF), missing, x.SlowConn(), x.ConnDown(), x.BadPickle())
			}
			return ""
		}
		problem := evaluate()
		for dl := time.Now().Add(10 * time.Second); problem != "" && time.Now().Before(dl); {
			time.Sleep(2 * time.Millisecond)
			problem = evaluate()
		}
		if problem != "" {
			t.Fatalf("%s; iobuf=%d connbuf=%d flush=%s pickle=%v", problem, iobuf, connbuf, flush, pickle)
		}
		// expected records in hand-off order (markers included), warm-up traffic ignored
		var want []string
		rend := func(text string) string {
			if !pickle {
				return text
			}
			f := strings.Fields(text)
			var v float64
			var ts uint32
			fmt.Sscanf(f[1], "%g", &v)
			fmt.Sscanf(f[2], "%d", &ts)
			return fmt.Sprintf("%s|%v|%v", f[0], int64(ts), v)
		}
		for _, l := range handed {
			want = append(want, rend(l.text))
		}
		for _, s := range sent {
			want = append(want, rend(string(s)))
		}
		// subsequence check: order kept, nothing duplicated, torn, merged or invented
		wi := 0
		for gi, g := range gotF {
			for wi < len(want) && want[wi] != g {
				wi++
			}
			if wi == len(want) {
				t.Fatalf("record %d of the received stream, %q, is not the next of the handed-off lines (torn, merged, duplicated, reordered or invented); iobuf=%d connbuf=%d flush=%s pickle=%v\nreceived around: %q", gi, clip(g), iobuf, connbuf, flush, pickle, clipAll(gotF[max(0, gi-2):min(len(gotF), gi+3)]))
			}
			wi++
		}
		nt := longer && shorter && (paused || time.Since(t0) > flush)
		rec.Case(fmt.Sprintf("iobuf=%d connbuf=%d flush=%s pickle=%v n=%d lens=%v", iobuf, connbuf, flush, pickle, n, lens(handed)), nt,
			fmt.Sprintf("pickle=%v", pickle), fmt.Sprintf("dropped>0=%v", missing > 0), fmt.Sprintf("iobuf=%d", iobuf), fmt.Sprintf("manual-flush-mid-stream=%v", flushes > 0), "log_level="+lvl)
		rec.Num("lines_handed", int64(nHanded))
		rec.Num("lines_dropped_slow_conn", int64(missing))
	})
}

func clip(s string) string {
	if len(s) > 80 {
		return s[:40] + "..." + s[len(s)-30:]
	}
	return s
}
func clipAll(ss []string) []string {
	o := make([]string, len(ss))
	for i, s := range ss {
		o[i] = clip(s)
	}
	return o
}
func lens(ls []lineT) []int {
	o := make([]int, 0, 12)
	for i, l := range ls {
		if i >= 12 {
			break
		}
		o = append(o, len(l.text))
	}
	return o
}
