// C05 — "while a carbon destination's connection is healthy": an endpoint that stops reading for a while and then carries
// on has not broken the connection.  Traffic far beyond every buffer is handed in during the pause; once the endpoint
// reads again the stream must be the handed-off lines in order, each once and whole, the absent ones all counted as
// slow-connection drops.
package c05

import (
	"fmt"
	"strings"
	"testing"
	"time"

	"pgregory.net/rapid"

	"verifharness/internal/dh"
	"verifharness/internal/ep"
	"verifharness/internal/ev"
)

func TestPropPausingEndpoint(t *testing.T) {
	rec := ev.Get("pausing_endpoint")
	rapid.Check(t, func(t *rapid.T) {
		iobuf := rapid.SampledFrom([]int{256, 4096, 65536, 2000000}).Draw(t, "iobuf")
		connbuf := rapid.SampledFrom([]int{10, 1000, 30000}).Draw(t, "connbuf")
		flush := time.Duration(rapid.SampledFrom([]int{1, 100, 1000}).Draw(t, "flushMs")) * time.Millisecond
		pause := time.Duration(rapid.SampledFrom([]int{500, 2500, 3500, 5000, 8000}).Draw(t, "pauseMs")) * time.Millisecond
		lineLen := rapid.SampledFrom([]int{30, 70, 200}).Draw(t, "linelen")
		volume := rapid.SampledFrom([]int{8, 24}).Draw(t, "volumeMB") << 20
		e := ep.NewSmallBuf(16384)
		defer e.Close()
		x := dh.Start(dh.Opts{Route: "c05p", Addr: e.Addr, Flush: flush, ConnBuf: connbuf, IoBuf: iobuf})
		defer x.Stop(20*time.Second, e)
		if _, ok := x.WaitUp(e, 20*time.Second); !ok {
			t.Fatalf("HARNESS-ERROR: destination never came up against a healthy endpoint: %s", x.LastDiag)
		}
		ctx := fmt.Sprintf("iobuf=%d connbuf=%d flush=%s pause=%s linelen=%d volume=%dMB", iobuf, connbuf, flush, pause, lineLen, volume>>20)
		e.SetMode(ep.BlackHole)
		resume := time.AfterFunc(pause, func() { e.SetMode(ep.Healthy) })
		defer resume.Stop()
		n := volume / (lineLen + 1)
		handed := make([]string, 0, n)
		t0 := time.Now()
		for i := 0; i < n; i++ {
			l := mkLine(i, lineLen).text
			handed = append(handed, l)
			x.Hand([]byte(l))
		}
		if rest := pause - time.Since(t0); rest > 0 {
			time.Sleep(rest + 20*time.Millisecond)
		}
		_, sent, ok := x.PushUntilSeen("end", e.All, dh.PlainContains, 4*flush+10*time.Millisecond, 60*time.Second)
		if !ok {
			t.Fatalf("a line handed after the endpoint resumed reading never arrived within 60s (%s; slow_conn=%d conn_down=%d, %d connections seen by the endpoint)", ctx, x.SlowConn(), x.ConnDown(), len(e.Incarnations()))
		}
		nHanded := len(handed) + len(sent)
		var got []string
		evaluate := func() string {
			x.D.Flush()
			stream := e.All()
			if len(stream) > 0 && stream[len(stream)-1] != '\n' {
				return "stream does not end with a newline after a flush"
			}
			got = got[:0]
			for _, g := range strings.Split(strings.TrimSuffix(string(stream), "\n"), "\n") {
				if !strings.HasPrefix(g, "verif.warm") {
					got = append(got, g)
				}
			}
			if missing := nHanded - len(got); int64(missing) != x.SlowConn() {
				return fmt.Sprintf("%d lines handed, %d received: %d absent, but the slow-connection drop counter moved by %d (conn_down=%d, %d connections seen by the endpoint)", nHanded, len(got), missing, x.SlowConn(), x.ConnDown(), len(e.Incarnations()))
			}
			return ""
		}
		problem := evaluate()
		for dl := time.Now().Add(15 * time.Second); problem != "" && time.Now().Before(dl); {
			time.Sleep(5 * time.Millisecond)
			problem = evaluate()
		}
		if problem != "" {
			t.Fatalf("%s; %s", problem, ctx)
		}
		want := append(append([]string(nil), handed...), func() []string {
			var s []string
			for _, b := range sent {
				s = append(s, string(b))
			}
			return s
		}()...)
		wi := 0
		for gi, g := range got {
			for wi < len(want) && want[wi] != g {
				wi++
			}
			if wi == len(want) {
				t.Fatalf("record %d of the received stream, %q, is not the next of the handed-off lines (torn, merged, duplicated, reordered or invented); %s\nreceived around: %q", gi, clip(g), ctx, clipAll(got[max(0, gi-2):min(len(got), gi+3)]))
			}
			wi++
		}
		rec.Case(ctx, x.SlowConn() > 0, fmt.Sprintf("pause=%s", pause), fmt.Sprintf("connections-used=%d", len(e.Incarnations())), fmt.Sprintf("iobuf=%d", iobuf), fmt.Sprintf("dropped>0=%v", x.SlowConn() > 0))
		rec.Num("lines_handed", int64(nHanded))
	})
}
