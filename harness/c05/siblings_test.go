// C05 — several destinations working at the same time, after an earlier destination was removed at run time: each
// healthy connection must carry exactly the lines handed to ITS destination (plain: newline-terminated lines; pickle:
// length-prefixed pickles), in order, each once, whatever the destinations share or inherit from closed connections.
package c05

import (
	"bytes"
	"fmt"
	"strings"
	"testing"
	"time"

	dest "github.com/grafana/carbon-relay-ng/destination"
	"github.com/grafana/carbon-relay-ng/matcher"
	"github.com/grafana/carbon-relay-ng/route"
	"pgregory.net/rapid"

	"verifharness/internal/ep"
	"verifharness/internal/ev"
	"verifharness/internal/h"
)

var sibSeq int

func TestPropSiblingDestinations(t *testing.T) {
	rec := ev.Get("sibling_destinations")
	rapid.Check(t, func(t *rapid.T) {
		sibSeq++
		iobuf := rapid.SampledFrom([]int{64, 300, 4096, 65536}).Draw(t, "iobuf")
		connbuf := rapid.SampledFrom([]int{100, 30000}).Draw(t, "connbuf")
		mk := func(rkey string, e *ep.Endpoint, inst int, pickle bool) *dest.Destination {
			d, err := dest.New(rkey, matcher.Matcher{}, e.Addr+fmt.Sprintf(":i%d", inst), "/nonexistent-spool", false, pickle, 2*time.Millisecond, 20*time.Millisecond, connbuf, iobuf, 10, 1<<20, 1000, time.Second, time.Millisecond, time.Millisecond)
			if err != nil {
				t.Fatalf("HARNESS-ERROR: %v", err)
			}
			return d
		}
		warm := func(rt route.Route, eps []*ep.Endpoint, tag string) {
			for i, e := range eps {
				if !e.WaitAccept(1, 10*time.Second) {
					t.Fatalf("HARNESS-ERROR: destination %d never connected", i)
				}
			}
			for i := 0; ; i++ {
				rt.Dispatch([]byte(fmt.Sprintf("verif.warm.%s.%d 1 1500000000", tag, i)))
				time.Sleep(time.Millisecond)
				up := true
				for _, e := range eps {
					up = up && e.Total() > 0
				}
				if up {
					return
				}
				if i > 5000 {
					t.Fatalf("HARNESS-ERROR: destinations never forwarded to healthy endpoints")
				}
			}
		}
		// 0. (half of the cases) an earlier route with a connected destination carries some traffic and is removed at run time
		predecessor := rapid.Bool().Draw(t, "predecessor")
		if predecessor {
			e0 := ep.NewSmallBuf(16384)
			r0, err := route.NewSendAllMatch(fmt.Sprintf("c05p%d", sibSeq), matcher.Matcher{}, []*dest.Destination{mk(fmt.Sprintf("c05p%d", sibSeq), e0, 0, false)})
			if err != nil {
				t.Fatalf("HARNESS-ERROR: %v", err)
			}
			warm(r0, []*ep.Endpoint{e0}, fmt.Sprintf("p%d", sibSeq))
			for i := 0; i < 50; i++ {
				r0.Dispatch([]byte(fmt.Sprintf("c05.pred.%d.%d 1 1500000000", sibSeq, i)))
			}
			r0.Shutdown() // what delRoute does
			e0.WaitPeerClosed(2 * time.Second)
			e0.Close()
		}
		// 1. the siblings
		nd := rapid.IntRange(2, 3).Draw(t, "ndest")
		slow := rapid.IntRange(-1, nd-1).Draw(t, "slow") // -1: all healthy
		nlines := rapid.SampledFrom([]int{500, 5000}).Draw(t, "nlines")
		rkey := fmt.Sprintf("c05s%d", sibSeq)
		var eps []*ep.Endpoint
		var dests []*dest.Destination
		var pickles []bool
		for i := 0; i < nd; i++ {
			e := ep.NewSmallBuf(16384)
			defer e.Close()
			eps = append(eps, e)
			p := rapid.IntRange(0, 2).Draw(t, "pickle") == 0
			pickles = append(pickles, p)
			dests = append(dests, mk(rkey, e, i, p))
		}
		rt, err := route.NewSendAllMatch(rkey, matcher.Matcher{}, dests)
		if err != nil {
			t.Fatalf("HARNESS-ERROR: %v", err)
		}
		stopped := false
		defer func() {
			if !stopped {
				rt.Shutdown()
			}
		}()
		warm(rt, eps, fmt.Sprintf("s%d", sibSeq))
		if slow >= 0 {
			eps[slow].ThrottleBytes = 4096
			eps[slow].SetMode(ep.Throttled)
		}
		var handed []string
		for i := 0; i < nlines; i++ {
			l := mkLine(i, rapid.SampledFrom([]int{20, 45, 130}).Draw(t, "len")).text
			l = fmt.Sprintf("s%d.", sibSeq) + l
			handed = append(handed, l)
			rt.Dispatch([]byte(l))
			if i%500 == 499 {
				time.Sleep(time.Millisecond)
			}
		}
		if slow >= 0 {
			eps[slow].SetMode(ep.Healthy)
		}
		sentinel := fmt.Sprintf("c05.sentinel.%d", sibSeq)
		for dl := time.Now().Add(60 * time.Second); ; {
			rt.Dispatch([]byte(sentinel + " 1 1500000000"))
			time.Sleep(5 * time.Millisecond)
			all := true
			for _, e := range eps {
				all = all && bytes.Contains(e.All(), []byte(sentinel))
			}
			if all {
				break
			}
			if time.Now().After(dl) {
				t.Fatalf("a line handed after the traffic never reached every endpoint within 60s (iobuf=%d connbuf=%d)", iobuf, connbuf)
			}
		}
		rt.Flush()
		time.Sleep(10 * time.Millisecond)
		ctx := fmt.Sprintf("%d destinations in one sendAllMatch route (pickle: %v), slow one: %d, an earlier destination removed before: %v, iobuf=%d connbuf=%d, %d lines", nd, pickles, slow, predecessor, iobuf, connbuf, nlines)
		rend := func(text string, pickle bool) string {
			if !pickle {
				return text
			}
			f := strings.Fields(text)
			var v float64
			var ts uint32
			fmt.Sscanf(f[1], "%g", &v)
			fmt.Sscanf(f[2], "%d", &ts)
			return fmt.Sprintf("%s|%v|%v", f[0], int64(ts), v)
		}
		dropped := false
		for i, e := range eps {
			var got []string
			if pickles[i] {
				_, recs, err := parsePickleStream(e.All())
				if err != nil {
					t.Fatalf("endpoint %d (pickle): %v\n%s", i, err, ctx)
				}
				got = recs
			} else {
				s := string(e.All())
				if !strings.HasSuffix(s, "\n") {
					t.Fatalf("endpoint %d (plain): the stream does not end with a newline after a flush\n%s", i, ctx)
				}
				got = strings.Split(strings.TrimSuffix(s, "\n"), "\n")
			}
			wi, n := 0, 0
			for gi, g := range got {
				if strings.HasPrefix(g, "verif.warm") || strings.HasPrefix(g, sentinel) {
					continue
				}
				for wi < len(handed) && rend(handed[wi], pickles[i]) != g {
					wi++
				}
				if wi == len(handed) {
					t.Fatalf("endpoint %d: record %d of its stream, %q, is not the next of the lines handed to its destination (foreign, torn, merged, duplicated or reordered)\n%s", i, gi, clip(g), ctx)
				}
				wi++
				n++
			}
			if n < nlines {
				dropped = true
				if h.Count("dest="+dests[i].Key+".unit=Metric.action=drop.reason=slow_conn") == 0 {
					t.Fatalf("endpoint %d received %d of %d lines and no slow-connection drop was counted\n%s", i, n, nlines, ctx)
				}
			}
		}
		stopped = true
		sd := make(chan struct{})
		go func() { rt.Shutdown(); close(sd) }()
		select {
		case <-sd:
			for _, e := range eps {
				e.WaitPeerClosed(2 * time.Second)
			}
		case <-time.After(20 * time.Second):
		}
		rec.Case(ctx, true, fmt.Sprintf("ndest=%d", nd), fmt.Sprintf("predecessor-removed=%v", predecessor), fmt.Sprintf("some-dropped=%v", dropped))
		rec.Num("lines_handed", int64(nlines*nd))
	})
}
