// C05 (layer 1) — the buffered writer under a harness-owned schedule of
// Write / Flush calls: exactly the call patterns Conn.HandleData can produce
// (line, newline, periodic flush, manual flush, in any interleaving).
package c05

import (
	"bytes"
	"fmt"
	"strings"
	"testing"

	dest "github.com/grafana/carbon-relay-ng/destination"
	"pgregory.net/rapid"

	"verifharness/internal/ev"
	"verifharness/internal/h"
)

func TestMain(m *testing.M) { h.Init(); ev.Main(m) }

// recording sink that can also accept writes in pieces (short writes are not
// produced by net.TCPConn without an error, so the sink always takes everything)
type sink struct {
	chunks [][]byte
}

func (s *sink) Write(p []byte) (int, error) {
	s.chunks = append(s.chunks, append([]byte(nil), p...))
	return len(p), nil
}
func (s *sink) all() []byte { return bytes.Join(s.chunks, nil) }

func TestPropBufWriter(t *testing.T) {
	rec := ev.Get("bufwriter")
	rapid.Check(t, func(t *rapid.T) {
		size := rapid.SampledFrom([]int{1, 2, 3, 5, 8, 16, 17, 64, 100, 128, 4096}).Draw(t, "bufsize")
		_, restore := h.DrawLogLevel(t)
		defer restore()
		sk := &sink{}
		w := dest.NewWriter(sk, size, "c05w")
		var want bytes.Buffer
		var ops []string
		straddle, long, shortW, flushBetween := false, false, false, false
		lastWasWrite := false
		t.Repeat(map[string]func(*rapid.T){
			"write": func(t *rapid.T) {
				var n int
				switch rapid.IntRange(0, 5).Draw(t, "lenclass") {
				case 0:
					n = 0
				case 1:
					n = 1 // the newline
				case 2:
					n = rapid.IntRange(1, size).Draw(t, "len")
				case 3:
					n = rapid.IntRange(size, 4*size+1).Draw(t, "len")
				case 4:
					n = w.Available() + rapid.IntRange(0, 2).Draw(t, "over") // exactly fills / just overflows
				default:
					n = rapid.IntRange(1, 40).Draw(t, "len")
				}
				if n > 20000 {
					n = 20000
				}
				p := make([]byte, n)
				for i := range p {
					p[i] = byte('a' + (want.Len()+i)%26)
				}
				avail, buffered := w.Available(), w.Buffered()
				got, err := w.Write(p)
				if err != nil || got != n {
					t.Fatalf("Write(%d bytes) returned (%d, %v); ops %v", n, got, err, ops)
				}
				want.Write(p)
				ops = append(ops, fmt.Sprintf("w%d", n))
				if n > avail && buffered > 0 {
					straddle = true
				}
				if n > size {
					long = true
				}
				if n < size {
					shortW = true
				}
				if lastWasWrite == false && len(ops) > 1 {
					flushBetween = true
				}
				lastWasWrite = true
			},
			"flush": func(t *rapid.T) {
				if err := w.Flush(); err != nil {
					t.Fatalf("Flush: %v", err)
				}
				ops = append(ops, "F")
				if w.Buffered() != 0 {
					t.Fatalf("Buffered()=%d after Flush; ops %v", w.Buffered(), ops)
				}
				lastWasWrite = false
			},
			"": func(t *rapid.T) {
				if w.Buffered()+w.Available() != size {
					t.Fatalf("Buffered()+Available() = %d+%d != %d; ops %v", w.Buffered(), w.Available(), size, ops)
				}
				// what reached the sink is always a prefix of what was written, nothing reordered
				if !bytes.HasPrefix(want.Bytes(), sk.all()) {
					t.Fatalf("bytes handed to the connection are not a prefix of the bytes written; ops %v", ops)
				}
				if len(sk.all())+w.Buffered() != want.Len() {
					t.Fatalf("%d bytes at the sink + %d buffered != %d written; ops %v", len(sk.all()), w.Buffered(), want.Len(), ops)
				}
			},
		})
		if err := w.Flush(); err != nil {
			t.Fatalf("final Flush: %v", err)
		}
		if !bytes.Equal(sk.all(), want.Bytes()) {
			t.Fatalf("after the final flush the connection received %d bytes, %d were written, content differs; ops %v", len(sk.all()), want.Len(), ops)
		}
		rec.Case(fmt.Sprintf("size=%d %s", size, strings.Join(ops, " ")), straddle && long && shortW,
			fmt.Sprintf("straddle=%v", straddle), fmt.Sprintf("flush-between-writes=%v", flushBetween))
	})
}
