// C06 — a bad endpoint never stalls ingestion; steady-state losses are all counted.
package c06

import (
	"bytes"
	"fmt"
	"os"
	"path/filepath"
	"runtime"
	"strings"
	"sync/atomic"
	"testing"
	"time"

	dest "github.com/grafana/carbon-relay-ng/destination"
	"github.com/grafana/carbon-relay-ng/matcher"
	"github.com/grafana/carbon-relay-ng/route"
	"pgregory.net/rapid"

	"verifharness/internal/ep"
	"verifharness/internal/ev"
	"verifharness/internal/h"
)

func TestMain(m *testing.M) { h.Init(); ev.Main(m) }

const stallBound = 2 * time.Second

var dumpStacks bool

type scenario struct {
	behaviour string // absent | blackhole | throttled | healthy | closing | stutter | silent | readdress
	rtype     string
	connbuf   int
	iobuf     int
	flush     time.Duration
	volume    int // bytes
	lineLen   int
	closeAt   int64
	throttle  int
	spool     bool
	stutter   time.Duration
}

func (s scenario) String() string {
	return fmt.Sprintf("%s/%s spool=%v connbuf=%d iobuf=%d flush=%s volume=%dB linelen=%d closeAfter=%d throttle=%dB/ms", s.behaviour, s.rtype, s.spool, s.connbuf, s.iobuf, s.flush, s.volume, s.lineLen, s.closeAt, s.throttle)
}

type outcome struct {
	stalled      bool
	starved      bool
	stacks       string
	stallAt      int
	maxLatency   time.Duration
	handed       int
	received     int
	slowConn     int64
	connDown     int64
	capGot       int
	backlog      bool // the endpoint demonstrably did not keep up (drops or unread data)
	accountErr   string
	incarnations int
	skipped      bool   // the kernel does not give us a silent endpoint
	adminState   string // readdress: what became of the admin request
}

var runSeq int

func counter(key, suffix string) int64 { return h.Count("dest=" + key + "." + suffix) }

func run(sc scenario) outcome {
	runSeq++
	var out outcome
	tab := h.NewTable(false)
	var e *ep.Endpoint
	addr := "127.0.0.1:1"
	// "silent": the address neither accepts nor refuses (SYNs are swallowed), so every dial to it hangs.
	// "readdress": a healthy endpoint; in the middle of the traffic an admin request re-points the destination at a
	// silent address (modDest addr=...), whose dial hangs for as long as the case lasts while the old connection stays up.
	var sil *ep.Silent
	if sc.behaviour == "silent" || sc.behaviour == "readdress" {
		if sil = ep.NewSilent(); sil == nil {
			out.skipped = true
			return out
		}
		defer sil.Close()
	}
	if sc.behaviour == "silent" {
		addr = sil.Addr
	} else if sc.behaviour != "absent" {
		e = ep.NewSmallBuf(16384)
		addr = e.Addr
	}
	rkey := "c06r"
	spoolDir := "/nonexistent-spool"
	if sc.spool {
		base := os.Getenv("VERIF_SCRATCH")
		if base == "" {
			base = os.TempDir()
		}
		spoolDir = filepath.Join(base, fmt.Sprintf("c06spool-%d-%d", os.Getpid(), runSeq))
		os.RemoveAll(spoolDir)
		os.MkdirAll(spoolDir, 0755)
		defer os.RemoveAll(spoolDir)
	}
	d, err := dest.New(rkey, matcher.Matcher{}, addr, spoolDir, sc.spool, false, sc.flush, 20*time.Millisecond, sc.connbuf, sc.iobuf, 10, 1<<20, 1000, time.Second, time.Millisecond, time.Millisecond)
	if err != nil {
		panic("HARNESS-ERROR: " + err.Error())
	}
	ds := []*dest.Destination{d}
	var rt route.Route
	switch sc.rtype {
	case "sendAllMatch":
		rt, err = route.NewSendAllMatch(rkey, matcher.Matcher{}, ds)
	case "sendFirstMatch":
		rt, err = route.NewSendFirstMatch(rkey, matcher.Matcher{}, ds)
	default:
		rt, err = route.NewConsistentHashing(rkey, matcher.Matcher{}, ds)
	}
	if err != nil {
		panic("HARNESS-ERROR: " + err.Error())
	}
	cap := h.NewCaptureRoute("healthy-sibling", matcher.Matcher{})
	tab.AddRoute(rt)
	tab.AddRoute(cap)
	key := d.Key
	if e != nil {
		// warm-up against the (still healthy) endpoint until the destination forwards, then let the endpoint misbehave
		if !e.WaitAccept(1, 10*time.Second) {
			panic("HARNESS-ERROR: destination never connected")
		}
		up := false
		for i := 0; i < 4000 && !up; i++ {
			rt.Dispatch([]byte(fmt.Sprintf("c06.warm.%d.%d 1 1500000000", runSeq, i)))
			time.Sleep(time.Millisecond)
			up = e.Total() > 0
		}
		if !up {
			panic("HARNESS-ERROR: destination never forwarded to a healthy endpoint")
		}
		rt.Flush() // barrier: the fate of every warm-up line is decided
		switch sc.behaviour {
		case "blackhole":
			e.SetMode(ep.BlackHole)
		case "throttled":
			e.ThrottleBytes = sc.throttle
			e.SetMode(ep.Throttled)
		case "closing":
			e.CloseAfter = sc.closeAt
		case "stutter":
			// alive the whole time, but it stops reading for a while (longer than any deadline the relay might put on a
			// write) and then carries on: still a connection that stays up, so every line is received or counted
			e.SetMode(ep.BlackHole)
			resume := time.AfterFunc(sc.stutter, func() { e.SetMode(ep.Healthy) })
			defer resume.Stop()
		}
	} else {
		time.Sleep(5 * time.Millisecond)
		rt.Flush()
	}
	slow0 := counter(key, "unit=Metric.action=drop.reason=slow_conn")
	down0 := counter(key, "unit=Metric.action=drop.reason=conn_down_no_spool")

	n := sc.volume / (sc.lineLen + 1)
	pad := strings.Repeat("x", sc.lineLen)
	var progress int64
	var abandon int32 // set when the run is given up (stall / starvation): the pusher stops as soon as it gets unblocked
	myRun := runSeq
	var maxLat, maxLatTicks int64
	var canary int64
	done := make(chan struct{})
	var adminDone chan error
	if sc.behaviour == "readdress" {
		adminDone = make(chan error, 1)
	}
	go func() {
		defer close(done)
		for i := 0; i < n && atomic.LoadInt32(&abandon) == 0; i++ {
			if adminDone != nil && i == n/4 {
				go func() { adminDone <- tab.UpdateDestination(rkey, 0, map[string]string{"addr": sil.Addr + ":re"}) }()
				time.Sleep(2 * time.Millisecond) // (let the request get as far as its dial)
			}
			name := fmt.Sprintf("c06.%d.%d.%s", myRun, i, pad)
			line := []byte(name[:sc.lineLen-13] + " 1 1500000000")
			c0 := atomic.LoadInt64(&canary)
			t0 := time.Now()
			tab.Dispatch(line)
			if l := int64(time.Since(t0)); l > atomic.LoadInt64(&maxLat) {
				atomic.StoreInt64(&maxLat, l)
				atomic.StoreInt64(&maxLatTicks, atomic.LoadInt64(&canary)-c0) // how often the canary ran meanwhile
			}
			atomic.StoreInt64(&progress, int64(i+1))
		}
	}()
	// canary: a goroutine that only sleeps 1 ms and counts.  If it does not advance either, the machine
	// (not the relay) is starving the process, and the stall says nothing about the property.
	stopCanary := make(chan struct{})
	go func() {
		for {
			select {
			case <-stopCanary:
				return
			default:
			}
			time.Sleep(time.Millisecond)
			atomic.AddInt64(&canary, 1)
		}
	}()
	defer close(stopCanary)
	lastCanary := int64(0)
	last, lastChange := int64(0), time.Now()
	finished := false
	for !finished {
		select {
		case <-done:
			finished = true
		case <-time.After(50 * time.Millisecond):
			p := atomic.LoadInt64(&progress)
			cn := atomic.LoadInt64(&canary)
			if p != last {
				last, lastChange, lastCanary = p, time.Now(), cn
			} else if time.Since(lastChange) > stallBound {
				// the canary ticks ~1900 times in 2 s when the process gets the CPU it asks for (a relay that blocks leaves the
				// process idle); clearly fewer means the machine is oversubscribed and the pusher may simply not have run
				if cn-lastCanary < 1200 {
					out.starved = true
				} else {
					out.stalled, out.stallAt = true, int(p)
					buf := make([]byte, 1<<18)
					out.stacks = relayStacks(string(buf[:runtime.Stack(buf, true)]))
				}
				finished = true
			}
		}
	}
	out.maxLatency = time.Duration(atomic.LoadInt64(&maxLat))
	out.handed = int(atomic.LoadInt64(&progress))
	if out.maxLatency > stallBound && !out.starved {
		// one hand-off took longer than the bound although the watchdog saw progress in every window: count it as a stall
		// only if the canary kept running during that hand-off (>= 60 % of its ticks), i.e. the process did get CPU
		if atomic.LoadInt64(&maxLatTicks) < int64(out.maxLatency/(1700*time.Microsecond)) {
			out.starved = true
		} else {
			out.stalled = true
		}
	}
	if out.stalled || out.starved {
		atomic.StoreInt32(&abandon, 1)
		if e != nil {
			e.SetMode(ep.Healthy)
		}
		return out // leave the wedged pieces alone
	}
	// only this run's lines: the pusher of an earlier run that stalled (and was left alone) may still be handing its
	// remaining lines to the process-wide table
	mine := fmt.Sprintf("c06.%d.", runSeq)
	for _, l := range cap.Lines() {
		if strings.HasPrefix(l, mine) {
			out.capGot++
		}
	}

	// steady-state accounting
	switch sc.behaviour {
	case "absent", "silent":
		if sc.spool {
			// with spooling on an outage is C07's subject; here only the hand-off bound and the sibling route are checked
			out.backlog = true
			break
		}
		rt.Flush() // barrier through the relay loop
		out.connDown = counter(key, "unit=Metric.action=drop.reason=conn_down_no_spool") - down0
		out.slowConn = counter(key, "unit=Metric.action=drop.reason=slow_conn") - slow0
		out.backlog = out.connDown > 0
		if int(out.connDown) != out.handed {
			out.accountErr = fmt.Sprintf("endpoint down with spooling off: %d lines handed, connection-down drop counter moved by %d (slow_conn %d)", out.handed, out.connDown, out.slowConn)
		}
	case "healthy", "throttled", "stutter", "readdress":
		// completion by sentinel through the same route
		deadline := time.Now().Add(60 * time.Second)
		sent := 0
		arrived := false
		for !arrived && time.Now().Before(deadline) {
			sent++
			s := []byte(fmt.Sprintf("c06.sentinel.%d.%d 1 1500000000", runSeq, sent))
			rt.Dispatch(s)
			until := time.Now().Add(20 * time.Millisecond)
			for time.Now().Before(until) {
				if bytes.Contains(e.All(), []byte(fmt.Sprintf("c06.sentinel.%d.", runSeq))) {
					arrived = true
					break
				}
				time.Sleep(500 * time.Microsecond)
			}
		}
		if !arrived {
			if dumpStacks {
				buf := make([]byte, 1<<20)
				fmt.Printf("%s\n", buf[:runtime.Stack(buf, true)])
			}
			all := e.All()
			tail := all
			if len(tail) > 200 {
				tail = tail[len(tail)-200:]
			}
			out.accountErr = fmt.Sprintf("healthy/throttled endpoint: nothing handed after the traffic arrived within 60s (slow_conn=%d conn_down=%d, %d sentinels handed, endpoint got %d bytes over %d connections, tail %q)", counter(key, "unit=Metric.action=drop.reason=slow_conn")-slow0,
				counter(key, "unit=Metric.action=drop.reason=conn_down_no_spool")-down0, sent, len(all), len(e.Incarnations()), tail)
			break
		}
		// later sentinels may still be in flight: settled once received + counted drops reaches handed (bounded wait)
		total := out.handed + sent
		var stream []byte
		for dl := time.Now().Add(15 * time.Second); ; {
			rt.Flush()
			stream = e.All()
			// this run's traffic and sentinels only (see the note on abandoned pushers above)
			out.received = 0
			sentinel := []byte(fmt.Sprintf("c06.sentinel.%d.", runSeq))
			for rest := stream; ; {
				i := bytes.IndexByte(rest, '\n')
				if i < 0 {
					break // (an unterminated tail is still on its way)
				}
				if l := rest[:i]; bytes.HasPrefix(l, []byte(mine)) || bytes.HasPrefix(l, sentinel) {
					out.received++
				}
				rest = rest[i+1:]
			}
			out.slowConn = counter(key, "unit=Metric.action=drop.reason=slow_conn") - slow0
			out.connDown = counter(key, "unit=Metric.action=drop.reason=conn_down_no_spool") - down0
			if int64(total) == int64(out.received)+out.slowConn || time.Now().After(dl) {
				break
			}
			time.Sleep(5 * time.Millisecond)
		}
		out.backlog = out.slowConn > 0
		if int64(total) != int64(out.received)+out.slowConn {
			out.accountErr = fmt.Sprintf("endpoint up the whole time: %d lines handed, %d received, slow-connection drop counter moved by %d (conn_down %d): %d lines unaccounted for", total, out.received, out.slowConn, out.connDown, int64(total)-int64(out.received)-out.slowConn)
		}
		// every received line intact
		complete := stream
		if i := bytes.LastIndexByte(complete, '\n'); i >= 0 {
			complete = complete[:i] // (an unterminated tail is still on its way)
		} else {
			complete = nil
		}
		for _, l := range bytes.Split(complete, []byte("\n")) {
			if len(complete) == 0 {
				break
			}
			if !bytes.HasPrefix(l, []byte("c06.")) || !bytes.HasSuffix(l, []byte(" 1 1500000000")) {
				out.accountErr = fmt.Sprintf("received a mangled line %q", l)
				break
			}
		}
	default:
		out.slowConn = counter(key, "unit=Metric.action=drop.reason=slow_conn") - slow0
		out.backlog = out.slowConn > 0 || out.handed > 0
	}
	if e != nil {
		out.incarnations = len(e.Incarnations())
		e.SetMode(ep.Healthy) // let a blocked writer drain so that Shutdown can flush
		e.CloseAfter = 0
		time.Sleep(5 * time.Millisecond)
	}
	if adminDone != nil {
		// the request's dial ends (refused) at its next SYN retransmission once the silent socket is closed
		select {
		case err := <-adminDone:
			out.adminState = fmt.Sprintf("returned before the silent address was closed (err=%v)", err)
		default:
			sil.Close()
			select {
			case err := <-adminDone:
				out.adminState = fmt.Sprintf("returned once the silent address refused (err=%v)", err)
			case <-time.After(40 * time.Second):
				out.adminState = "still hanging 40 s after the silent address was closed"
			}
		}
	}
	sd := make(chan struct{})
	go func() { rt.Shutdown(); close(sd) }()
	select {
	case <-sd:
		if e != nil {
			e.WaitPeerClosed(2 * time.Second)
		}
	case <-time.After(20 * time.Second):
	}
	if e != nil {
		e.Close()
	}
	return out
}

// TestPropStutteringEndpoint: the rare, expensive behaviour on its own (one case costs the pause): an endpoint that stays
// connected but reads nothing for 3-14 s under traffic far beyond every buffer, then resumes.  Same oracle as a healthy
// endpoint: bounded hand-off, sibling route unaffected, #handed = #received + slow_conn once the traffic has settled.
func TestPropStutteringEndpoint(t *testing.T) {
	rec := ev.Get("stuttering_endpoint")
	rapid.Check(t, func(t *rapid.T) {
		sc := scenario{
			behaviour: "stutter",
			rtype:     rapid.SampledFrom([]string{"sendAllMatch", "sendFirstMatch", "consistentHashing"}).Draw(t, "rtype"),
			connbuf:   rapid.SampledFrom([]int{0, 10, 1000}).Draw(t, "connbuf"),
			iobuf:     rapid.SampledFrom([]int{256, 4096, 65536, 2000000}).Draw(t, "iobuf"),
			flush:     time.Duration(rapid.SampledFrom([]int{1, 100, 1000}).Draw(t, "flushMs")) * time.Millisecond,
			volume:    rapid.SampledFrom([]int{8, 24}).Draw(t, "volumeMB") << 20,
			lineLen:   rapid.SampledFrom([]int{30, 70, 200}).Draw(t, "linelen"),
			stutter:   time.Duration(rapid.SampledFrom([]int{3, 5, 11, 12, 14}).Draw(t, "stutterS")) * time.Second,
		}
		o := run(sc)
		if o.starved {
			rec.Class("inconclusive:machine-starved", 1)
			t.Skip("machine starved")
		}
		if o.stalled {
			t.Fatalf("ingestion stalled with a stuttering endpoint %s (max hand-off latency %s)\n%s", sc, o.maxLatency, o.stacks)
		}
		if o.capGot != o.handed {
			t.Fatalf("the healthy sibling route received %d of %d metrics while the other route's endpoint was %s", o.capGot, o.handed, sc)
		}
		if o.accountErr != "" {
			t.Fatalf("%s (pause %s): %s", sc, sc.stutter, o.accountErr)
		}
		rec.Case(sc.String()+" pause="+sc.stutter.String(), o.backlog, "rtype="+sc.rtype, fmt.Sprintf("drops>0=%v", o.slowConn > 0))
		rec.Num("lines_handed", int64(o.handed))
	})
}

// TestPropSilentEndpoint: an endpoint that neither accepts nor refuses.  (a) "silent": the destination's address swallows
// SYNs from the start, so its dial hangs for the whole case; with spooling off that is the statement's "down" steady state
// (every line counted as connection-down).  (b) "readdress": the endpoint is healthy, and in the middle of the traffic an
// admin request re-points the destination at a silent address; the request hangs in its dial while the old connection
// stays up, so hand-offs must stay bounded, the sibling route unaffected and #handed = #received + slow_conn.
func TestPropSilentEndpoint(t *testing.T) {
	rec := ev.Get("silent_endpoint")
	rapid.Check(t, func(t *rapid.T) {
		sc := scenario{
			behaviour: rapid.SampledFrom([]string{"silent", "readdress", "readdress"}).Draw(t, "behaviour"),
			rtype:     rapid.SampledFrom([]string{"sendAllMatch", "sendFirstMatch", "consistentHashing"}).Draw(t, "rtype"),
			connbuf:   rapid.SampledFrom([]int{0, 10, 1000}).Draw(t, "connbuf"),
			iobuf:     rapid.SampledFrom([]int{256, 4096, 65536}).Draw(t, "iobuf"),
			flush:     time.Duration(rapid.SampledFrom([]int{1, 10, 100}).Draw(t, "flushMs")) * time.Millisecond,
			volume:    rapid.SampledFrom([]int{1, 2, 4}).Draw(t, "volumeMB") << 20,
			lineLen:   rapid.SampledFrom([]int{30, 70, 200}).Draw(t, "linelen"),
			spool:     rapid.IntRange(0, 3).Draw(t, "spool") == 0,
		}
		if sc.behaviour == "readdress" {
			sc.spool = false
		}
		o := run(sc)
		if o.skipped {
			rec.Class("inconclusive:no-silent-endpoint-on-this-kernel", 1)
			t.Skip("no silent endpoint")
		}
		if o.starved {
			rec.Class("inconclusive:machine-starved", 1)
			t.Skip("machine starved")
		}
		if o.stalled {
			o2 := run(sc)
			if o2.starved || o2.skipped {
				rec.Class("inconclusive:machine-starved", 1)
				t.Skip("machine starved during the confirmation run")
			}
			if o2.stalled {
				t.Fatalf("ingestion stalled: handing a metric to the table did not return within %s (twice) with endpoint %s; first run stalled after %d lines (max latency %s), second after %d\nrelay goroutines at the second stall:\n%s", stallBound, sc, o.stallAt, o.maxLatency, o2.stallAt, o2.stacks)
			}
			o = o2
		}
		if o.capGot != o.handed {
			t.Fatalf("the healthy sibling route received %d of %d metrics while the other route's endpoint was %s", o.capGot, o.handed, sc)
		}
		if o.accountErr != "" {
			t.Fatalf("%s: %s", sc, o.accountErr)
		}
		rec.Case(sc.String(), o.backlog || sc.behaviour == "readdress", "behaviour="+sc.behaviour, "rtype="+sc.rtype, fmt.Sprintf("spool=%v", sc.spool), "admin-request="+strings.SplitN(o.adminState, " (", 2)[0])
		rec.Num("lines_handed", int64(o.handed))
	})
}

func TestPropBadEndpoint(t *testing.T) {
	rec := ev.Get("bad_endpoint")
	rapid.Check(t, func(t *rapid.T) {
		sc := scenario{
			behaviour: rapid.SampledFrom([]string{"absent", "blackhole", "throttled", "healthy", "closing", "closing"}).Draw(t, "behaviour"),
			rtype:     rapid.SampledFrom([]string{"sendAllMatch", "sendFirstMatch", "consistentHashing"}).Draw(t, "rtype"),
			connbuf:   rapid.SampledFrom([]int{0, 1, 10, 100, 1000}).Draw(t, "connbuf"),
			iobuf:     rapid.SampledFrom([]int{16, 256, 4096, 65536}).Draw(t, "iobuf"),
			flush:     time.Duration(rapid.SampledFrom([]int{1, 10, 100}).Draw(t, "flushMs")) * time.Millisecond,
			volume:    rapid.SampledFrom([]int{1, 2, 4, 8}).Draw(t, "volumeMB") << 20,
			lineLen:   rapid.SampledFrom([]int{30, 70, 200}).Draw(t, "linelen"),
			closeAt:   int64(rapid.SampledFrom([]int{1, 100, 5000, 200000, 1000000, 3000000}).Draw(t, "closeAfter")),
			spool:     rapid.Bool().Draw(t, "spool"),
			throttle:  rapid.SampledFrom([]int{4096, 16384, 65536}).Draw(t, "throttle"),
		}
		if sc.behaviour == "throttled" && sc.volume > 4<<20 {
			sc.volume = 4 << 20
		}
		o := run(sc)
		if o.starved {
			rec.Class("inconclusive:machine-starved", 1)
			t.Skip("the process was not getting CPU (canary goroutine starved): the stall says nothing about the relay")
		}
		if o.stalled {
			// a wall-clock bound is a fragile oracle: re-run the scenario once, report only a repeat
			o2 := run(sc)
			if o2.starved {
				rec.Class("inconclusive:machine-starved", 1)
				t.Skip("machine starved during the confirmation run")
			}
			if o2.stalled {
				t.Fatalf("ingestion stalled: handing a metric to the table did not return within %s (twice) with endpoint %s; first run stalled after %d lines (max latency %s), second after %d\nrelay goroutines at the second stall:\n%s", stallBound, sc, o.stallAt, o.maxLatency, o2.stallAt, o2.stacks)
			}
			o = o2
		}
		if o.capGot != o.handed {
			t.Fatalf("the healthy sibling route received %d of %d metrics while the other route's endpoint was %s", o.capGot, o.handed, sc)
		}
		if o.accountErr != "" {
			t.Fatalf("%s: %s", sc, o.accountErr)
		}
		rec.Case(sc.String(), o.backlog, "behaviour="+sc.behaviour, "rtype="+sc.rtype, fmt.Sprintf("spool=%v", sc.spool), fmt.Sprintf("drops>0=%v", o.slowConn+o.connDown > 0))
		rec.Num("lines_handed", int64(o.handed))
		rec.Num("max_latency_us_sum", int64(o.maxLatency/time.Microsecond))
	})
}

// relayStacks keeps the goroutines of relay code from a full dump.
func relayStacks(dump string) string {
	var keep []string
	for _, g := range strings.Split(dump, "\n\n") {
		if strings.Contains(g, "carbon-relay-ng/destination") || strings.Contains(g, "carbon-relay-ng/route") || strings.Contains(g, "carbon-relay-ng/table") {
			lines := strings.Split(g, "\n")
			if len(lines) > 9 {
				lines = lines[:9]
			}
			keep = append(keep, strings.Join(lines, "\n"))
		}
	}
	return strings.Join(keep, "\n\n")
}
