// C07 — with spooling on, an endpoint outage loses nothing that is not counted.
package c07

import (
	"bytes"
	"fmt"
	"os"
	"runtime"
	"path/filepath"
	"strings"
	"testing"
	"time"

	"pgregory.net/rapid"

	"verifharness/internal/dh"
	"verifharness/internal/ep"
	"verifharness/internal/ev"
	"verifharness/internal/h"
)

func TestMain(m *testing.M) { h.Init(); ev.Main(m) }

type phase struct {
	up    bool
	lines int
	pause time.Duration // after the phase's traffic
}

var caseSeq int

func TestPropSpoolOutage(t *testing.T) {
	rec := ev.Get("spool_outage")
	rapid.Check(t, func(t *rapid.T) {
		caseSeq++
		// schedule: 2-6 phases, always ending with the endpoint up
		np := rapid.IntRange(2, 6).Draw(t, "nphases")
		var phases []phase
		up := rapid.Bool().Draw(t, "startUp") // false: outage before the first connect
		for i := 0; i < np; i++ {
			p := phase{up: up, lines: rapid.SampledFrom([]int{0, 5, 40, 150, 400}).Draw(t, "lines"), pause: time.Duration(rapid.SampledFrom([]int{0, 5, 30, 120}).Draw(t, "pauseMs")) * time.Millisecond}
			phases = append(phases, p)
			up = !up
		}
		if !phases[len(phases)-1].up {
			phases = append(phases, phase{up: true, lines: rapid.SampledFrom([]int{0, 10, 100}).Draw(t, "tailLines"), pause: 0})
		}
		reconn := time.Duration(rapid.SampledFrom([]int{20, 50, 100}).Draw(t, "reconnMs")) * time.Millisecond
		flush := time.Duration(rapid.SampledFrom([]int{5, 20, 50}).Draw(t, "flushMs")) * time.Millisecond
		o := dh.Opts{Route: fmt.Sprintf("c07r%d", caseSeq%4), Spool: true, Flush: flush, Reconn: reconn,
			ConnBuf: rapid.SampledFrom([]int{1, 10, 100, 1000, 30000}).Draw(t, "connbuf"), IoBuf: rapid.SampledFrom([]int{256, 4096, 65536}).Draw(t, "iobuf"),
			SpoolBuf: rapid.SampledFrom([]int{10, 100, 10000}).Draw(t, "spoolbuf"), SpoolMaxBytes: int64(rapid.SampledFrom([]int{100, 500, 4000, 1 << 20}).Draw(t, "maxbytesperfile")),
			SpoolSyncEvery: int64(rapid.SampledFrom([]int{1, 10, 10000}).Draw(t, "syncevery")), SpoolSyncPeriod: time.Duration(rapid.SampledFrom([]int{10, 1000}).Draw(t, "syncperiodMs")) * time.Millisecond,
			SpoolSleep: time.Duration(rapid.SampledFrom([]int{1, 50, 500}).Draw(t, "spoolsleepUs")) * time.Microsecond, Unspool: time.Duration(rapid.SampledFrom([]int{1, 10, 200}).Draw(t, "unspoolsleepUs")) * time.Microsecond}
		pace := rapid.SampledFrom([]int{1, 3, 8}).Draw(t, "paceEvery") // a short pause every `pace` lines (an un-paced burst overflows the 10-slot spool inbox into counted drops)
		base := os.Getenv("VERIF_SCRATCH")
		if base == "" {
			base = os.TempDir()
		}
		o.SpoolDir = filepath.Join(base, fmt.Sprintf("c07spool-%d-%d", os.Getpid(), caseSeq))
		os.RemoveAll(o.SpoolDir)
		defer os.RemoveAll(o.SpoolDir)

		// reserve a port: bring an endpoint up once to learn the address
		e := ep.New()
		addr := e.Addr
		var eps []*ep.Endpoint
		isUp := true
		if !phases[0].up {
			e.Down(true)
			isUp = false
		} else {
			eps = append(eps, e)
		}
		o.Addr = addr
		x := dh.Start(o)
		shutdownDone := false
		defer func() {
			if !shutdownDone {
				done := make(chan struct{})
				go func() { x.D.Shutdown(); close(done) }()
				select {
				case <-done:
					for _, q := range eps {
						q.WaitPeerClosed(2 * time.Second)
					}
				case <-time.After(20 * time.Second):
				}
			}
			for _, q := range eps {
				q.Close()
			}
		}()
		var handed []string
		seq := 0
		var sched []string
		downLines := 0
		sluggish := 0
		padMul := rapid.SampledFrom([]int{1, 1, 8, 20}).Draw(t, "padMul") // line length up to ~60, ~320 or ~750 bytes (longer than the smallest spool segment)
		for pi, p := range phases {
			if p.up != isUp {
				if p.up {
					// the endpoint may come back sluggish: it accepts the connection but reads nothing (small receive window)
					// until this phase's lines have been handed; the backlog is then drained into a connection that is busy
					var ne *ep.Endpoint
					if rapid.IntRange(0, 3).Draw(t, "sluggish") == 0 {
						ne = ep.NewOnBuf(addr, 4096)
						ne.SetMode(ep.BlackHole)
						sluggish++
					} else {
						ne = ep.NewOn(addr)
					}
					eps = append(eps, ne)
				} else {
					eps[len(eps)-1].Down(rapid.Bool().Draw(t, "rst"))
					eps[len(eps)-1] = eps[len(eps)-1] // (kept for its recorded stream)
				}
				isUp = p.up
			}
			sched = append(sched, fmt.Sprintf("%v:%d", map[bool]string{true: "up", false: "down"}[p.up], p.lines))
			for i := 0; i < p.lines; i++ {
				seq++
				l := fmt.Sprintf("c07.%d.l%d.%s %d %d", caseSeq, seq, strings.Repeat("p", (seq%37)*padMul), seq, 1500000000+seq)
				handed = append(handed, l)
				x.Hand([]byte(l))
				if !p.up {
					downLines++
				}
				if i%pace == pace-1 {
					time.Sleep(150 * time.Microsecond)
				}
			}
			_ = pi
			time.Sleep(p.pause)
			if p.up && len(eps) > 0 {
				eps[len(eps)-1].SetMode(ep.Healthy) // a sluggish endpoint recovers at the end of its phase
			}
		}
		// ---- completion: everything handed is received or counted; then the backlog must be gone
		Hset := map[string]bool{}
		for _, l := range handed {
			Hset[l] = true
		}
		analyse := func() (R map[string]int, errs []string, perInc []map[string]bool) {
			R = map[string]int{}
			for qi, q := range eps {
				for ii, inc := range q.Incarnations() {
					b := inc.Bytes()
					parts := bytes.Split(b, []byte("\n"))
					seen := map[string]bool{}
					for k, p := range parts {
						last := k == len(parts)-1
						if len(p) == 0 {
							continue
						}
						s := string(p)
						if last {
							// an unterminated fragment at the very end of an incarnation: allowed only as a prefix of a handed line
							okp := false
							for _, hl := range handed {
								if strings.HasPrefix(hl, s) {
									okp = true
									break
								}
							}
							if !okp {
								errs = append(errs, fmt.Sprintf("endpoint %d connection %d ends with %q, which is not the beginning of any handed line", qi, ii, s))
							}
							continue
						}
						if !Hset[s] {
							errs = append(errs, fmt.Sprintf("endpoint %d connection %d received %q, which was never handed to the destination (torn, merged or invented)", qi, ii, s))
							continue
						}
						R[s]++
						seen[s] = true
					}
					perInc = append(perInc, seen)
				}
			}
			return
		}
		deadline := time.Now().Add(60 * time.Second)
		var R map[string]int
		var errs []string
		var perInc []map[string]bool
		for {
			R, errs, perInc = analyse()
			if len(errs) > 0 {
				break
			}
			if int64(len(R))+x.SlowConn()+x.SlowSpool() >= int64(len(handed)) {
				break
			}
			if time.Now().After(deadline) {
				depth, buf := x.D.VerifSpoolBacklog()
				missing := []string{}
				for _, l := range handed {
					if R[l] == 0 && len(missing) < 5 {
						missing = append(missing, l)
					}
				}
				var epd []string
				for qi, q := range eps {
					for ii, inc := range q.Incarnations() {
						epd = append(epd, fmt.Sprintf("endpoint %d conn %d: %d bytes from %s", qi, ii, len(inc.Bytes()), inc.RemoteAddr()))
					}
				}
				t.Fatalf("schedule %v: %d lines handed, only %d distinct lines received after the endpoint came back, drop counters slow_conn=%d slow_spool=%d: %d lines lost uncounted (60s after the last recovery; spool depth %d, buffered %d); e.g. %q\noptions %+v\nendpoints: %v; destination wrote %d lines\n%s",
					sched, len(handed), len(R), x.SlowConn(), x.SlowSpool(), int64(len(handed))-int64(len(R))-x.SlowConn()-x.SlowSpool(), depth, buf, missing, o, epd, x.Out(), x.Diag(eps[len(eps)-1]))
			}
			time.Sleep(2 * time.Millisecond)
		}
		if len(errs) > 0 {
			t.Fatalf("schedule %v: %s\noptions %+v", sched, errs[0], o)
		}
		// the backlog drains completely once the endpoint stays up
		drainDeadline := time.Now().Add(60 * time.Second)
		for {
			depth, buf := x.D.VerifSpoolBacklog()
			if depth == 0 && buf == 0 {
				break
			}
			if time.Now().After(drainDeadline) {
				t.Fatalf("schedule %v: endpoint has been up again for 60s but the spool still holds %d messages (+%d buffered)\noptions %+v", sched, depth, buf, o)
			}
			time.Sleep(2 * time.Millisecond)
		}
		// settle: nothing unexpected follows
		time.Sleep(3 * flush)
		R, errs, perInc = analyse()
		if len(errs) > 0 {
			t.Fatalf("schedule %v: %s\noptions %+v", sched, errs[0], o)
		}
		lost := int64(len(handed)) - int64(len(R))
		if lost > x.SlowConn()+x.SlowSpool() {
			t.Fatalf("schedule %v: %d of %d handed lines were never received but only %d drops were counted (slow_conn=%d slow_spool=%d)\noptions %+v", sched, lost, len(handed), x.SlowConn()+x.SlowSpool(), x.SlowConn(), x.SlowSpool(), o)
		}
		// non-trivial: a line handed while down was later received (went through the spool) and a line was replayed (seen by two connections)
		spooled, replayed := false, false
		for l, n := range R {
			_ = l
			if n >= 2 {
				cnt := 0
				for _, s := range perInc {
					if s[l] {
						cnt++
					}
				}
				if cnt >= 2 {
					replayed = true
				}
			}
		}
		if downLines > 0 {
			// lines handed during a down phase that arrived
			i := 0
			for pi, p := range phases {
				for k := 0; k < p.lines; k++ {
					if !p.up && R[handed[i]] > 0 {
						spooled = true
					}
					i++
				}
				_ = pi
			}
		}
		done := make(chan struct{})
		go func() { x.D.Shutdown(); close(done) }()
		select {
		case <-done:
			shutdownDone = true
			for _, q := range eps {
				q.WaitPeerClosed(2 * time.Second)
			}
		case <-time.After(20 * time.Second):
			// not part of this property (a destination whose connection has just died can wedge in Shutdown/Flush:
			// the relay loop asks a connection writer that has already exited to flush); recorded, not reported
			shutdownDone = true
			rec.Class("cleanup:shutdown-did-not-return", 1)
			if os.Getenv("VERIF_DUMP") != "" {
				buf := make([]byte, 1<<20)
				fmt.Fprintf(os.Stderr, "SHUTDOWN-HANG schedule %v\n%s\n", sched, buf[:runtime.Stack(buf, true)])
			}
		}
		rec.Case(fmt.Sprintf("%v reconn=%s flush=%s connbuf=%d iobuf=%d spoolbuf=%d maxbytes=%d syncevery=%d pace=%d", sched, reconn, flush, o.ConnBuf, o.IoBuf, o.SpoolBuf, o.SpoolMaxBytes, o.SpoolSyncEvery, pace),
			spooled && replayed, fmt.Sprintf("went-through-spool=%v", spooled), fmt.Sprintf("replayed-from-redo-buffer=%v", replayed), fmt.Sprintf("drops>0=%v", x.SlowConn()+x.SlowSpool() > 0), fmt.Sprintf("first-phase-down=%v", !phases[0].up), fmt.Sprintf("sluggish-return=%v", sluggish > 0), fmt.Sprintf("connbuf=%d", o.ConnBuf))
		rec.Num("lines_handed", int64(len(handed)))
		rec.Num("lines_dropped_counted", x.SlowConn()+x.SlowSpool())
	})
}
