package c07

import (
	"bytes"
	"fmt"
	"os"
	"path/filepath"
	"strings"
	"testing"
	"time"

	"pgregory.net/rapid"

	"verifharness/internal/dh"
	"verifharness/internal/ep"
	"verifharness/internal/ev"
)

var sharedSeq int

// TestPropSharedEndpoint: several spooling destinations (of different routes, or of one route with different
// instances) point at ONE endpoint address and use ONE spool directory, the way a relay with two routes to
// the same carbon server does.  The endpoint goes away and comes back; every destination must satisfy the
// loss <= counted-drops identity on its own lines, nothing may be invented, every backlog must drain.
func TestPropSharedEndpoint(t *testing.T) {
	rec := ev.Get("shared_endpoint")
	rapid.Check(t, func(t *rapid.T) {
		sharedSeq++
		nd := rapid.IntRange(2, 3).Draw(t, "ndest")
		sameRoute := rapid.IntRange(0, 3).Draw(t, "sameRoute") == 0 // one route, destinations told apart by instance
		base := os.Getenv("VERIF_SCRATCH")
		if base == "" {
			base = os.TempDir()
		}
		dir := filepath.Join(base, fmt.Sprintf("c07shared-%d-%d", os.Getpid(), sharedSeq))
		os.RemoveAll(dir)
		defer os.RemoveAll(dir)
		reconn := time.Duration(rapid.SampledFrom([]int{20, 50}).Draw(t, "reconnMs")) * time.Millisecond
		flush := time.Duration(rapid.SampledFrom([]int{5, 20}).Draw(t, "flushMs")) * time.Millisecond
		maxBytes := int64(rapid.SampledFrom([]int{500, 4000, 1 << 20}).Draw(t, "maxbytesperfile"))
		syncEvery := int64(rapid.SampledFrom([]int{1, 10, 10000}).Draw(t, "syncevery"))
		e := ep.New()
		addr := e.Addr
		eps := []*ep.Endpoint{e}
		startDown := rapid.Bool().Draw(t, "startDown")
		if startDown {
			e.Down(true)
		}
		var xs []*dh.DH
		var descr []string
		for i := 0; i < nd; i++ {
			o := dh.Opts{Spool: true, SpoolDir: dir, Flush: flush, Reconn: reconn, ConnBuf: rapid.SampledFrom([]int{10, 1000, 30000}).Draw(t, "connbuf"),
				IoBuf: rapid.SampledFrom([]int{256, 4096}).Draw(t, "iobuf"), SpoolBuf: 10000, SpoolMaxBytes: maxBytes, SpoolSyncEvery: syncEvery,
				SpoolSyncPeriod: 10 * time.Millisecond, SpoolSleep: time.Microsecond, Unspool: time.Microsecond}
			if sameRoute {
				o.Route = fmt.Sprintf("c07sh%d", sharedSeq%3)
				o.Addr = fmt.Sprintf("%s:i%d", addr, i)
			} else {
				o.Route = fmt.Sprintf("c07sh%d_%d", sharedSeq%3, i)
				o.Addr = addr
				if rapid.IntRange(0, 2).Draw(t, "withInstance") == 0 {
					o.Addr = fmt.Sprintf("%s:i%d", addr, rapid.IntRange(0, 1).Draw(t, "inst")) // instances may even coincide across routes
				}
			}
			descr = append(descr, o.Route+"->"+o.Addr)
			xs = append(xs, dh.Start(o))
		}
		stopped := false
		defer func() {
			if !stopped {
				for _, x := range xs {
					x.Stop(10*time.Second, eps[len(eps)-1])
				}
			}
			for _, q := range eps {
				q.Close()
			}
		}()
		// schedule: [up n0] down n1 up n2 (optionally a second outage)
		type ph struct {
			up bool
			n  int
		}
		var phases []ph
		if !startDown {
			phases = append(phases, ph{true, rapid.SampledFrom([]int{0, 20, 150}).Draw(t, "n_up0")})
		}
		phases = append(phases, ph{false, rapid.SampledFrom([]int{20, 150, 400}).Draw(t, "n_down")}, ph{true, rapid.SampledFrom([]int{0, 20, 150}).Draw(t, "n_up1")})
		if rapid.IntRange(0, 2).Draw(t, "second") == 0 {
			phases = append(phases, ph{false, rapid.SampledFrom([]int{20, 150}).Draw(t, "n_down2")}, ph{true, rapid.SampledFrom([]int{0, 50}).Draw(t, "n_up2")})
		}
		pad := rapid.SampledFrom([]int{0, 3, 20}).Draw(t, "pad")
		isUp := !startDown
		handed := make([][]string, nd)
		owner := map[string]int{}
		downHanded := map[string]bool{}
		seq := 0
		var sched []string
		for _, p := range phases {
			if p.up != isUp {
				if p.up {
					eps = append(eps, ep.NewOn(addr))
				} else {
					eps[len(eps)-1].Down(rapid.Bool().Draw(t, "rst"))
				}
				isUp = p.up
			}
			sched = append(sched, fmt.Sprintf("%v:%d", map[bool]string{true: "up", false: "down"}[p.up], p.n))
			for i := 0; i < p.n; i++ {
				for d := 0; d < nd; d++ {
					seq++
					l := fmt.Sprintf("c07sh.%d.d%d.l%d.%s %d %d", sharedSeq, d, seq, strings.Repeat("p", (seq%23)*pad), seq, 1500000000+seq)
					handed[d] = append(handed[d], l)
					owner[l] = d
					if !p.up {
						downHanded[l] = true
					}
					xs[d].Hand([]byte(l))
				}
				if i%3 == 2 {
					time.Sleep(150 * time.Microsecond)
				}
			}
			time.Sleep(time.Duration(rapid.SampledFrom([]int{0, 30, 120}).Draw(t, "pauseMs")) * time.Millisecond)
		}
		analyse := func() (R map[string]int, errs []string) {
			R = map[string]int{}
			for qi, q := range eps {
				for ii, inc := range q.Incarnations() {
					parts := bytes.Split(inc.Bytes(), []byte("\n"))
					for k, p := range parts {
						if len(p) == 0 {
							continue
						}
						s := string(p)
						if k == len(parts)-1 {
							okp := false
							for l := range owner {
								if strings.HasPrefix(l, s) {
									okp = true
									break
								}
							}
							if !okp {
								errs = append(errs, fmt.Sprintf("endpoint %d connection %d ends with %q, which is not the beginning of any handed line", qi, ii, s))
							}
							continue
						}
						if _, ok := owner[s]; !ok {
							errs = append(errs, fmt.Sprintf("endpoint %d connection %d received %q, which was never handed to any destination (torn, merged or invented)", qi, ii, s))
							continue
						}
						R[s]++
					}
				}
			}
			return
		}
		lostOf := func(R map[string]int, d int) (int64, string) {
			var n int64
			ex := ""
			for _, l := range handed[d] {
				if R[l] == 0 {
					n++
					if ex == "" {
						ex = l
					}
				}
			}
			return n, ex
		}
		cfg := fmt.Sprintf("destinations %v sharing spool dir; schedule %v; reconn=%s flush=%s maxbytesperfile=%d syncevery=%d pad=%d", descr, sched, reconn, flush, maxBytes, syncEvery, pad)
		deadline := time.Now().Add(60 * time.Second)
		for {
			R, errs := analyse()
			if len(errs) > 0 {
				t.Fatalf("%s: %s", cfg, errs[0])
			}
			ok := true
			for d := range xs {
				lost, _ := lostOf(R, d)
				if lost > xs[d].SlowConn()+xs[d].SlowSpool() {
					ok = false
				}
			}
			if ok {
				break
			}
			if time.Now().After(deadline) {
				var msg []string
				for d := range xs {
					lost, ex := lostOf(R, d)
					depth, buf := xs[d].D.VerifSpoolBacklog()
					msg = append(msg, fmt.Sprintf("destination %d (%s): %d handed, %d never received, counted drops slow_conn=%d slow_spool=%d, spool depth %d (+%d buffered), e.g. %q", d, descr[d], len(handed[d]), lost, xs[d].SlowConn(), xs[d].SlowSpool(), depth, buf, ex))
				}
				t.Fatalf("%s: 60 s after the endpoint came back lines are still lost uncounted:\n%s", cfg, strings.Join(msg, "\n"))
			}
			time.Sleep(2 * time.Millisecond)
		}
		drainDeadline := time.Now().Add(60 * time.Second)
		for d := range xs {
			for {
				depth, buf := xs[d].D.VerifSpoolBacklog()
				if depth == 0 && buf == 0 {
					break
				}
				if time.Now().After(drainDeadline) {
					t.Fatalf("%s: endpoint up again for 60 s but the spool of destination %d (%s) still holds %d messages (+%d buffered)", cfg, d, descr[d], depth, buf)
				}
				time.Sleep(2 * time.Millisecond)
			}
		}
		time.Sleep(3 * flush)
		R, errs := analyse()
		if len(errs) > 0 {
			t.Fatalf("%s: %s", cfg, errs[0])
		}
		spooledDests := 0
		var drops int64
		for d := range xs {
			lost, ex := lostOf(R, d)
			if lost > xs[d].SlowConn()+xs[d].SlowSpool() {
				t.Fatalf("%s: destination %d (%s): %d of %d handed lines never received but only %d drops counted, e.g. %q", cfg, d, descr[d], lost, len(handed[d]), xs[d].SlowConn()+xs[d].SlowSpool(), ex)
			}
			drops += xs[d].SlowConn() + xs[d].SlowSpool()
			for _, l := range handed[d] {
				if downHanded[l] && R[l] > 0 {
					spooledDests++
					break
				}
			}
		}
		stopped = true
		for _, x := range xs {
			if !x.Stop(20*time.Second, eps[len(eps)-1]) {
				rec.Class("cleanup:shutdown-did-not-return", 1)
			}
		}
		rec.Case(cfg, spooledDests >= 2, fmt.Sprintf("destinations-whose-lines-went-through-the-spool=%d", spooledDests), fmt.Sprintf("same-route=%v", sameRoute), fmt.Sprintf("ndest=%d", nd), fmt.Sprintf("drops>0=%v", drops > 0), fmt.Sprintf("start-down=%v", startDown))
		rec.Num("lines_handed", int64(len(owner)))
	})
}
