package c07

import (
	"bytes"
	"fmt"
	"os"
	"path/filepath"
	"strconv"
	"strings"
	"testing"
	"time"

	"verifharness/internal/ev"

	"verifharness/internal/dh"
	"verifharness/internal/ep"
)

// outageUnderLoad: a steady paced stream while the endpoint is killed once and
// brought back; returns (handed, distinct received, counted drops).
func outageUnderLoad(iter int, n int) (int, int, int64, string) {
	base := os.Getenv("VERIF_SCRATCH")
	if base == "" {
		base = os.TempDir()
	}
	dir := filepath.Join(base, fmt.Sprintf("c07stress-%d-%d", os.Getpid(), iter))
	os.RemoveAll(dir)
	defer os.RemoveAll(dir)
	e := ep.New()
	addr := e.Addr
	x := dh.Start(dh.Opts{Route: fmt.Sprintf("c07s%d", iter%4), Addr: addr, Spool: true, SpoolDir: dir, Flush: 5 * time.Millisecond, Reconn: 20 * time.Millisecond,
		ConnBuf: 30000, IoBuf: 4096, SpoolBuf: 10000, SpoolSleep: time.Microsecond, Unspool: time.Microsecond})
	if _, ok := x.WaitUp(e, 20*time.Second); !ok {
		return 0, 0, 0, "HARNESS-ERROR: never up"
	}
	handed := map[string]bool{}
	var e2 *ep.Endpoint
	for i := 0; i < n; i++ {
		l := fmt.Sprintf("c07s.%d.l%d 1 1500000000", iter, i)
		handed[l] = true
		x.Hand([]byte(l))
		if i == n/3 {
			e.Down(true)
		}
		if i == 2*n/3 {
			e2 = ep.NewOn(addr)
		}
		if i%4 == 3 {
			time.Sleep(100 * time.Microsecond)
		}
	}
	deadline := time.Now().Add(30 * time.Second)
	var got map[string]bool
	for {
		got = map[string]bool{}
		for _, q := range []*ep.Endpoint{e, e2} {
			for _, ln := range bytes.Split(q.All(), []byte("\n")) {
				if handed[string(ln)] {
					got[string(ln)] = true
				}
			}
		}
		depth, buf := x.D.VerifSpoolBacklog()
		if int64(len(got))+x.SlowConn()+x.SlowSpool() >= int64(len(handed)) || (time.Now().After(deadline) && depth == 0 && buf == 0) {
			break
		}
		if time.Now().After(deadline.Add(30 * time.Second)) {
			break
		}
		time.Sleep(5 * time.Millisecond)
	}
	miss := ""
	for l := range handed {
		if !got[l] {
			miss += l + "; "
			if len(miss) > 200 {
				break
			}
		}
	}
	drops := x.SlowConn() + x.SlowSpool()
	done := make(chan struct{})
	go func() { x.D.Shutdown(); close(done) }()
	select {
	case <-done:
		e2.WaitPeerClosed(2 * time.Second)
	case <-time.After(10 * time.Second):
	}
	e2.Close()
	return len(handed), len(got), drops, miss
}

// TestOutageUnderLoad: the outage hits while lines are being written at a steady
// rate (found 2026-09-24: one line handed at the moment of the outage was lost
// uncounted in ~7% of the runs before the getRedo fix).
func TestOutageUnderLoad(t *testing.T) {
	rec := ev.Get("outage_under_load")
	iters := 12
	if ev.Tier() == "thorough" {
		iters = 150
	}
	shard, _ := strconv.Atoi(os.Getenv("VERIF_SHARD"))
	for it := 0; it < iters; it++ {
		n := []int{3000, 1500, 6000}[it%3]
		h, g, d, miss := outageUnderLoad(shard*1000+it, n)
		if strings.HasPrefix(miss, "HARNESS-ERROR") {
			t.Fatalf("%s", miss)
		}
		lost := int64(h-g) - d
		if lost > 0 {
			t.Fatalf("outage under load (iteration %d): %d lines handed, %d received after the endpoint came back, %d drops counted: %d lines lost uncounted, e.g. %s", it, h, g, d, lost, miss)
		}
		rec.Case(fmt.Sprintf("shard %d iteration %d: %d lines, outage at line %d, back at line %d -> received %d, counted drops %d", shard, it, n, n/3, 2*n/3, g, d), true)
	}
}
