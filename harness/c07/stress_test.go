package c07

import (
	"bytes"
	"fmt"
	"os"
	"path/filepath"
	"strings"
	"testing"
	"time"

	"pgregory.net/rapid"

	"verifharness/internal/ev"

	"verifharness/internal/dh"
	"verifharness/internal/ep"
)

type loadOpts struct {
	n, downAt, upAt int
	iobuf, connbuf  int
	pad             int
	paceEvery       int
	rst             bool
	flush, reconn   time.Duration
}

func (o loadOpts) String() string {
	return fmt.Sprintf("%d lines (+%dB padding), outage at line %d (rst=%v), back at line %d, iobuf=%d connbuf=%d flush=%s reconn=%s pace=%d", o.n, o.pad, o.downAt, o.rst, o.upAt, o.iobuf, o.connbuf, o.flush, o.reconn, o.paceEvery)
}

var loadSeq int

// outageUnderLoad: a steady paced stream while the endpoint is killed once and
// brought back; returns (handed, distinct received, counted drops).
func outageUnderLoad(o loadOpts) (int, int, int64, string) {
	loadSeq++
	iter := loadSeq
	base := os.Getenv("VERIF_SCRATCH")
	if base == "" {
		base = os.TempDir()
	}
	dir := filepath.Join(base, fmt.Sprintf("c07stress-%d-%d", os.Getpid(), iter))
	os.RemoveAll(dir)
	defer os.RemoveAll(dir)
	e := ep.New()
	addr := e.Addr
	x := dh.Start(dh.Opts{Route: fmt.Sprintf("c07s%d", iter%4), Addr: addr, Spool: true, SpoolDir: dir, Flush: o.flush, Reconn: o.reconn,
		ConnBuf: o.connbuf, IoBuf: o.iobuf, SpoolBuf: 10000, SpoolSleep: time.Microsecond, Unspool: time.Microsecond})
	if _, ok := x.WaitUp(e, 20*time.Second); !ok {
		x.Stop(10*time.Second, e)
		e.Close()
		return 0, 0, 0, "HARNESS-ERROR: never up: " + x.LastDiag
	}
	handed := map[string]bool{}
	var e2 *ep.Endpoint
	pad := strings.Repeat("q", o.pad)
	for i := 0; i < o.n; i++ {
		l := fmt.Sprintf("c07s.%d.%d.l%d%s 1 1500000000", os.Getpid(), iter, i, pad)
		handed[l] = true
		x.Hand([]byte(l))
		if i == o.downAt {
			e.Down(o.rst)
		}
		if i == o.upAt {
			e2 = ep.NewOn(addr)
		}
		if i%o.paceEvery == o.paceEvery-1 {
			time.Sleep(100 * time.Microsecond)
		}
	}
	deadline := time.Now().Add(30 * time.Second)
	var got map[string]bool
	for {
		got = map[string]bool{}
		for _, q := range []*ep.Endpoint{e, e2} {
			for _, ln := range bytes.Split(q.All(), []byte("\n")) {
				if handed[string(ln)] {
					got[string(ln)] = true
				}
			}
		}
		depth, buf := x.D.VerifSpoolBacklog()
		if int64(len(got))+x.SlowConn()+x.SlowSpool() >= int64(len(handed)) || (time.Now().After(deadline) && depth == 0 && buf == 0) {
			break
		}
		if time.Now().After(deadline.Add(30 * time.Second)) {
			break
		}
		time.Sleep(5 * time.Millisecond)
	}
	miss := ""
	for l := range handed {
		if !got[l] {
			miss += l + "; "
			if len(miss) > 200 {
				break
			}
		}
	}
	drops := x.SlowConn() + x.SlowSpool()
	x.Stop(10*time.Second, e2)
	e2.Close()
	return len(handed), len(got), drops, miss
}

// TestPropOutageUnderLoad: the outage hits while lines are being written at a steady rate (found 2026-09-24: one line
// handed at the moment of the outage was lost uncounted in ~7% of the runs before the getRedo fix).  Drawn: stream
// length, where the outage starts and ends, reset or orderly close, iobuf from smaller than a line (every write goes
// to the socket, so a dying connection fails inside Write) to larger than the whole burst (it fails in a flush),
// connbuf, flush and reconnect periods, pacing, line length.
func TestPropOutageUnderLoad(t *testing.T) {
	rec := ev.Get("outage_under_load")
	rapid.Check(t, func(t *rapid.T) {
		o := loadOpts{n: rapid.SampledFrom([]int{1500, 3000, 6000}).Draw(t, "n")}
		o.downAt = o.n * rapid.IntRange(10, 45).Draw(t, "downAtPct") / 100
		o.upAt = o.n * rapid.IntRange(55, 90).Draw(t, "upAtPct") / 100
		o.iobuf = rapid.SampledFrom([]int{8, 16, 64, 256, 4096, 65536}).Draw(t, "iobuf")
		o.connbuf = rapid.SampledFrom([]int{100, 1000, 30000}).Draw(t, "connbuf")
		o.pad = rapid.SampledFrom([]int{0, 0, 40, 200}).Draw(t, "pad")
		o.paceEvery = rapid.SampledFrom([]int{2, 4, 16}).Draw(t, "paceEvery")
		o.rst = rapid.Bool().Draw(t, "rst")
		o.flush = time.Duration(rapid.SampledFrom([]int{1, 5, 50}).Draw(t, "flushMs")) * time.Millisecond
		o.reconn = time.Duration(rapid.SampledFrom([]int{10, 20, 100}).Draw(t, "reconnMs")) * time.Millisecond
		h, g, d, miss := outageUnderLoad(o)
		if strings.HasPrefix(miss, "HARNESS-ERROR") {
			t.Fatalf("%s", miss)
		}
		lost := int64(h-g) - d
		if lost > 0 {
			t.Fatalf("outage under load (%s): %d lines handed, %d received after the endpoint came back, %d drops counted: %d lines lost uncounted, e.g. %s", o, h, g, d, lost, miss)
		}
		lineLen := 30 + o.pad
		rec.Case(fmt.Sprintf("%s -> received %d, counted drops %d", o, g, d), true, fmt.Sprintf("iobuf<line=%v", o.iobuf < lineLen), fmt.Sprintf("rst=%v", o.rst), fmt.Sprintf("drops>0=%v", d > 0))
		rec.Num("lines_handed", int64(h))
	})
}
