// C08 — the disk spool queue recovers consistently from a crash at any point.
//
// Histories over {put, get, clean reopen, crash+reopen} are generated; with
// the verif-tagged crash-point callback the harness snapshots the queue
// directory after EVERY filesystem mutation (and after every hand-over to the
// consumer) together with exact counters, and afterwards recovers EVERY
// snapshot in a fresh directory and checks the recovered run.
package c08

import (
	"bytes"
	"encoding/json"
	"fmt"
	"os"
	"path/filepath"
	"strings"
	"testing"
	"time"

	"pgregory.net/rapid"

	"verifharness/internal/dqh"
	"verifharness/internal/ev"
	"verifharness/internal/h"
)

func TestMain(m *testing.M) { h.Init(); ev.Main(m) }

// one crash point: directory contents + exact bookkeeping at that instant
type point struct {
	label        string
	opIndex      int  // index of the history operation during which it was taken
	lastOfOp     bool // it is the last callback of its operation
	snap         dqh.Snapshot
	written      int // messages of this epoch written (segment-write done) so far
	handed       int // messages of this epoch handed to the consumer so far
	writtenSync  int // written at the last completed sync (meta rename)
	handedSync   int // handed at the last completed sync
	epoch        int
	rolledBefore bool
}

// epoch = stretch of history since the last (crash or clean) reopen-from-snapshot;
// E is the sequence of messages that are (or may be) in the queue in that epoch.
type epochT struct {
	E [][]byte
}

type recorder struct {
	points      []*point
	written     int
	handed      int
	writtenSync int
	handedSync  int
	epoch       int
	opIndex     int
	rolled      bool
	dir         string
	enabled     bool
}

func (r *recorder) on(label string) {
	if !r.enabled {
		return
	}
	switch label {
	case "segment-write":
		r.written++
	case "delivered":
		r.handed++
	case "meta-rename":
		r.writtenSync, r.handedSync = r.written, r.handed
	case "rollover":
		r.rolled = true
	}
	if label == "delivered-done" || label == "idle" {
		return // not filesystem operations; used only as barriers
	}
	r.points = append(r.points, &point{label: label, opIndex: r.opIndex, snap: dqh.TakeSnapshot(r.dir),
		written: r.written, handed: r.handed, writtenSync: r.writtenSync, handedSync: r.handedSync, epoch: r.epoch, rolledBefore: r.rolled})
}

// recoverSnapshot restores snap into a fresh dir, reopens, puts a unique
// sentinel and drains up to it.
func recoverSnapshot(snap dqh.Snapshot, max, syncEvery int64) (run [][]byte, err error) {
	run, err = recoverSnapshotBounded(snap, max, syncEvery, 10*time.Second)
	if err != nil && strings.Contains(err.Error(), "hung") && !hangConfirmed {
		// a wall-clock bound is no verdict on a busy machine: the same snapshot once more, with a bound no starved
		// scheduler explains; only a repeat is reported.  Once a hang has been confirmed in this process the short
		// bound is trusted (so that shrinking a genuinely hanging case stays affordable).
		run, err = recoverSnapshotBounded(snap, max, syncEvery, 120*time.Second)
		if err != nil && strings.Contains(err.Error(), "hung") {
			hangConfirmed = true
		}
	}
	return run, err
}

var hangConfirmed bool

func recoverSnapshotBounded(snap dqh.Snapshot, max, syncEvery int64, bound time.Duration) (run [][]byte, err error) {
	dir := dqh.ScratchDir("c08r")
	defer os.RemoveAll(dir)
	snap.Restore(dir)
	q := dqh.Open(dir, max, syncEvery)
	sentinel := []byte("\xff\xfeSENTINEL-after-reopen\xfe\xff")
	perr := make(chan error, 1)
	go func() { perr <- q.Put(sentinel) }()
	select {
	case e := <-perr:
		if e != nil {
			return nil, fmt.Errorf("put after reopen failed: %v", e)
		}
	case <-time.After(bound):
		return nil, fmt.Errorf("put after reopen hung")
	}
	for {
		m, ok := q.Get(bound)
		if !ok {
			return run, fmt.Errorf("reopened queue hung: sentinel put after reopening never came out (got %d messages)", len(run))
		}
		if bytes.Equal(m, sentinel) {
			break
		}
		run = append(run, m)
		if len(run) > 100000 {
			return run, fmt.Errorf("reopened queue delivers without end")
		}
	}
	// post-recovery workload: the reopened queue must keep working as an exact
	// FIFO (lagging reader, several segment rollovers) -- leftovers of the crash
	// (stale segment files, stale tails) must never surface later.
	m := int(max)
	sizes := []int{m/2 + 1, 1, m/2 + 1, 0, m, 2, m/2 + 1, m/2 + 1, 3}
	var fifo [][]byte
	getOne := func() error {
		got, ok := q.Get(bound)
		if !ok {
			return fmt.Errorf("post-recovery workload: queue hung with %d undelivered messages", len(fifo))
		}
		if !bytes.Equal(got, fifo[0]) {
			return fmt.Errorf("post-recovery workload: got %s (len %d), want %s (len %d)", clip(got), len(got), clip(fifo[0]), len(fifo[0]))
		}
		fifo = fifo[1:]
		return nil
	}
	for i, n := range sizes {
		msg := dqh.Msg(uint32(0xA0000000+i), n+4)
		if e := q.Put(msg); e != nil {
			return run, fmt.Errorf("post-recovery workload: put failed: %v", e)
		}
		fifo = append(fifo, msg)
		if len(fifo) > 2 {
			if e := getOne(); e != nil {
				return run, e
			}
		}
	}
	for len(fifo) > 0 {
		if e := getOne(); e != nil {
			return run, e
		}
	}
	done := make(chan struct{})
	go func() { q.Close(); close(done) }()
	select {
	case <-done:
	case <-time.After(bound):
		return run, fmt.Errorf("Close after recovery hung")
	}
	return run, nil
}

// checkRun: run must equal E[a:b) with loA <= a <= hiA and b >= loB (matched
// existentially because short messages are not unique).
func checkRun(E, run [][]byte, loA, hiA, loB int) error {
	n := len(run)
	for a := loA; a <= hiA && a+n <= len(E); a++ {
		b := a + n
		if b < loB {
			continue
		}
		ok := true
		for i := 0; i < n; i++ {
			if !bytes.Equal(E[a+i], run[i]) {
				ok = false
				break
			}
		}
		if ok {
			return nil
		}
	}
	// diagnose
	for _, m := range run {
		found := false
		for _, e := range E {
			if bytes.Equal(e, m) {
				found = true
				break
			}
		}
		if !found {
			return fmt.Errorf("recovered message %q (len %d) was never enqueued", clip(m), len(m))
		}
	}
	return fmt.Errorf("recovered run of %d messages is not E[a:b) with %d<=a<=%d and b>=%d (|E|=%d): run=%s", n, loA, hiA, loB, len(E), descr(run))
}

func clip(m []byte) string {
	if len(m) > 12 {
		return fmt.Sprintf("%x...", m[:12])
	}
	return fmt.Sprintf("%x", m)
}

func descr(ms [][]byte) string {
	var sb strings.Builder
	sb.WriteString("[")
	for i, m := range ms {
		if i > 0 {
			sb.WriteString(" ")
		}
		if i > 20 {
			sb.WriteString("...")
			break
		}
		fmt.Fprintf(&sb, "%d:%s", len(m), clip(m))
	}
	sb.WriteString("]")
	return sb.String()
}

type caseT struct {
	Max, Sync int64
	Ops       []string
}

func runCrash(t *rapid.T) {
	rec := ev.Get("crash_points")
	max := int64(rapid.SampledFrom([]int{1, 3, 5, 9, 16, 33, 64, 200}).Draw(t, "maxBytesPerFile"))
	syncEvery := int64(rapid.SampledFrom([]int{1, 2, 3, 5, 8, 1000000}).Draw(t, "syncEvery"))
	dir := dqh.ScratchDir("c08")
	defer os.RemoveAll(dir)
	r := &recorder{dir: dir, enabled: true}
	cs := caseT{Max: max, Sync: syncEvery}

	epochs := []*epochT{{}}
	var q *dqh.Q
	idle := make(chan struct{}, 4096)
	hook := func(p string) {
		r.on(p)
		if p == "idle" {
			select {
			case idle <- struct{}{}:
			default:
			}
		}
	}
	q = dqh.OpenWithHook(dir, max, syncEvery, hook)
	wedged := false
	defer func() {
		if !wedged {
			q.OnPoint(nil)
			q.Close()
		}
	}()
	bounded := func(what string, f func()) {
		done := make(chan struct{})
		go func() { f(); close(done) }()
		select {
		case <-done:
		case <-time.After(90 * time.Second):
			wedged = true
			t.Fatalf("%s did not return within 90s; history %v", what, cs.Ops)
		}
	}
	// the I/O loop signals "idle" right before it blocks: draining the channel
	// before an operation and waiting for one signal after it makes the whole
	// history sequential (callbacks never overlap the next operation).
	drainIdle := func() {
		for {
			select {
			case <-idle:
			default:
				return
			}
		}
	}
	waitIdle := func(what string) { bounded(what+" (waiting for the I/O loop to become idle)", func() { <-idle }) }
	waitIdle("open")
	seq := uint32(0)
	undelivered := func() int { return len(epochs[r.epoch].E) - r.handed }
	nCrash, nGets := 0, 0

	markLast := func(from int) {
		if len(r.points) > from {
			r.points[len(r.points)-1].lastOfOp = true
		}
	}
	t.Repeat(map[string]func(*rapid.T){
		"put": func(t *rapid.T) {
			n := dqh.MsgLen(t, max)
			seq++
			m := dqh.Msg(seq, n)
			r.opIndex++
			from := len(r.points)
			cs.Ops = append(cs.Ops, fmt.Sprintf("put(%d)", n))
			epochs[r.epoch].E = append(epochs[r.epoch].E, m)
			var err error
			drainIdle()
			bounded("Put", func() { err = q.Put(m) })
			if err != nil {
				t.Fatalf("Put failed: %v; history %v", err, cs.Ops)
			}
			waitIdle("Put")
			markLast(from)
		},
		"get": func(t *rapid.T) {
			if undelivered() <= 0 {
				t.Skip("nothing to get")
			}
			r.opIndex++
			from := len(r.points)
			cs.Ops = append(cs.Ops, "get")
			drainIdle()
			m, ok := q.Get(90 * time.Second)
			if !ok {
				wedged = true
				t.Fatalf("queue with %d undelivered messages delivered nothing within 90s; history %v", undelivered(), cs.Ops)
			}
			waitIdle("get")
			E := epochs[r.epoch].E
			if !bytes.Equal(m, E[r.handed-1]) {
				t.Fatalf("get returned %s, want %s; history %v", clip(m), clip(E[r.handed-1]), cs.Ops)
			}
			nGets++
			markLast(from)
		},
		"reopen": func(t *rapid.T) {
			r.opIndex++
			from := len(r.points)
			cs.Ops = append(cs.Ops, "reopen")
			bounded("Close", func() { q.Close() })
			q.OnPoint(nil)
			drainIdle()
			q = dqh.OpenWithHook(dir, max, syncEvery, hook)
			waitIdle("reopen")
			markLast(from)
		},
		"crash": func(t *rapid.T) {
			if len(r.points) == 0 {
				t.Skip("no crash point yet")
			}
			// die at one of the crash points recorded in this epoch (biased to recent ones)
			var cands []int
			for i, p := range r.points {
				if p.epoch == r.epoch {
					cands = append(cands, i)
				}
			}
			if len(cands) == 0 {
				t.Skip("no crash point in this epoch yet")
			}
			back := rapid.IntRange(0, min(len(cands)-1, 6)).Draw(t, "crashBack")
			p := r.points[cands[len(cands)-1-back]]
			cs.Ops = append(cs.Ops, fmt.Sprintf("crash@%s(-%d)", p.label, back))
			r.opIndex++
			// stop the live queue without letting it touch the directory again
			r.enabled = false
			q.OnPoint(nil)
			bounded("Close", func() { q.Close() })
			// what is in the queue after that crash?  peek with a throw-away copy
			run, err := recoverSnapshot(p.snap, max, syncEvery)
			if err != nil {
				t.Fatalf("recovery at crash point %q failed: %v; history %v; dir: %s", p.label, err, cs.Ops, p.snap.Describe())
			}
			p.snap.Restore(dir)
			r.epoch++
			epochs = append(epochs, &epochT{E: run})
			r.written, r.handed = len(run), 0
			r.writtenSync, r.handedSync = len(run), 0
			r.enabled = true
			drainIdle()
			q = dqh.OpenWithHook(dir, max, syncEvery, hook)
			waitIdle("reopen after crash")
			nCrash++
		},
	})
	// stop recording, close the live queue
	r.enabled = false
	q.OnPoint(nil)
	bounded("final Close", func() { q.Close() })
	wedged = true // already closed

	// ---- enumerate: recover at EVERY recorded crash point ----------------------
	histHash := fmt.Sprintf("max=%d sync=%d %s", max, syncEvery, strings.Join(cs.Ops, " "))
	for i, p := range r.points {
		E := epochs[p.epoch].E
		run, err := recoverSnapshot(p.snap, max, syncEvery)
		if err == nil {
			// only messages whose segment write had completed at that point can come back
			err = checkRun(E[:p.written], run, p.handedSync, p.handed, p.writtenSync)
		}
		if err != nil {
			saveReplay(cs, i, p)
			t.Fatalf("crash point #%d %q (during op %d of history %v): %v\n  counters: written=%d handed=%d writtenAtLastSync=%d handedAtLastSync=%d\n  directory at crash: %s\n  enqueued in this epoch: %s",
				i, p.label, p.opIndex, cs.Ops, err, p.written, p.handed, p.writtenSync, p.handedSync, p.snap.Describe(), descr(E))
		}
		nt := !p.lastOfOp && p.rolledBefore && p.handed > 0
		rec.Case(fmt.Sprintf("%s #%d@%s", histHash, i, p.label), nt, "point="+p.label, fmt.Sprintf("epoch>0=%v", p.epoch > 0))
	}
	rec.Num("histories", 1)
	rec.Num("crash_reopen_ops", int64(nCrash))
}

func saveReplay(cs caseT, idx int, p *point) {
	d := os.Getenv("VERIF_SCRATCH")
	if d == "" {
		return
	}
	b, _ := json.MarshalIndent(map[string]interface{}{"case": cs, "crash_point_index": idx, "label": p.label, "dir": p.snap.Describe()}, "", " ")
	os.WriteFile(filepath.Join(d, "c08-last-failure.json"), b, 0644)
}

func TestPropCrashRecovery(t *testing.T) { rapid.Check(t, runCrash) }
