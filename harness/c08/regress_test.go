package c08

import (
	"bytes"
	"os"
	"testing"
	"time"

	"verifharness/internal/dqh"
)

// Shrunk from a generated history (2026-09-23): a crash after an un-synced
// write leaves bytes beyond the persisted write position in the current
// segment; the reopened queue's reader buffered them and delivered them in
// place of (and misaligned with) what was enqueued after the restart.
func TestRegressStaleTailAfterCrash(t *testing.T) {
	dir := dqh.ScratchDir("c08reg")
	defer os.RemoveAll(dir)
	q := dqh.Open(dir, 1000, 1000000)
	m1, m2 := dqh.Msg(1, 6), dqh.Msg(2, 9)
	q.Put(m1)
	q.Close() // clean: metadata says one message
	q = dqh.Open(dir, 1000, 1000000)
	q.Put(m2) // un-synced
	snap := dqh.TakeSnapshot(dir) // the process dies here
	q.Close()

	rdir := dqh.ScratchDir("c08reg2")
	defer os.RemoveAll(rdir)
	snap.Restore(rdir)
	q = dqh.Open(rdir, 1000, 1000000)
	defer q.Close()
	got, ok := q.Get(5 * time.Second)
	if !ok || !bytes.Equal(got, m1) {
		t.Fatalf("first recovered message %q ok=%v, want %q", got, ok, m1)
	}
	m3 := []byte("enqueued-after-the-restart")
	if err := q.Put(m3); err != nil {
		t.Fatal(err)
	}
	var run [][]byte
	for {
		m, ok := q.Get(2 * time.Second)
		if !ok {
			t.Fatalf("message enqueued after the restart never came out intact; got %q", run)
		}
		if bytes.Equal(m, m3) {
			break
		}
		run = append(run, m)
	}
	// the un-synced m2 may or may not be salvaged, but nothing else may appear
	if len(run) > 1 || (len(run) == 1 && !bytes.Equal(run[0], m2)) {
		t.Fatalf("recovered %q between m1 and the new message; only the un-synced %q is acceptable", run, m2)
	}
}
