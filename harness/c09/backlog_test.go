package c09

import (
	"bytes"
	"fmt"
	"os"
	"testing"
	"time"

	"pgregory.net/rapid"

	"verifharness/internal/dqh"
	"verifharness/internal/ev"
)

// TestPropBacklog: the spool as it is used in production -- big segments and a consumer that lags far behind.  Thousands of
// small messages (fixed or varied size, so that records fall on every offset) are put into segments of 100 KB - 1 MB
// while the consumer takes none, some, or all of what is there; clean close + reopen happens at drawn points (so that
// reading resumes from arbitrary persisted offsets); in the end everything is drained.  Oracle: exact FIFO against a
// slice model, byte for byte, Depth() = model size at every checkpoint.
func TestPropBacklog(t *testing.T) {
	rec := ev.Get("backlog")
	rapid.Check(t, func(t *rapid.T) {
		max := int64(rapid.SampledFrom([]int{100000, 300000, 1 << 20}).Draw(t, "maxBytesPerFile"))
		syncEvery := int64(rapid.SampledFrom([]int{1000, 1000000}).Draw(t, "syncEvery"))
		dir := dqh.ScratchDir("c09b")
		defer os.RemoveAll(dir)
		q := dqh.Open(dir, max, syncEvery)
		closed := false
		defer func() {
			if !closed {
				q.Close()
			}
		}()
		base := rapid.IntRange(1, 40).Draw(t, "msglen")
		varied := rapid.Bool().Draw(t, "varied")
		var model [][]byte
		seq := uint32(0)
		put := func(n int) {
			for i := 0; i < n; i++ {
				seq++
				l := base
				if varied {
					l = 1 + int(seq*2654435761>>8)%(2*base)
				}
				m := dqh.Msg(seq, l)
				if err := q.Put(m); err != nil {
					t.Fatalf("Put failed: %v", err)
				}
				model = append(model, m)
			}
		}
		get := func(n int, when string) {
			for i := 0; i < n && len(model) > 0; i++ {
				m, ok := q.Get(60 * time.Second)
				if !ok {
					t.Fatalf("%s: queue with %d undelivered messages delivered nothing within 60s (Depth()=%d)", when, len(model), q.BQ.Depth())
				}
				if !bytes.Equal(m, model[0]) {
					t.Fatalf("%s: message %d of the backlog: got %q (len %d), want %q (len %d); segments of %d bytes, %d messages still to come", when, int(seq)-len(model)+1, clipB(m), len(m), clipB(model[0]), len(model[0]), max, len(model))
				}
				model = model[1:]
			}
		}
		var hist []string
		lagBytes := 0
		for r, rounds := 0, rapid.IntRange(1, 4).Draw(t, "rounds"); r < rounds; r++ {
			nput := rapid.SampledFrom([]int{200, 3000, 8000, 20000}).Draw(t, "nput")
			put(nput)
			if b := len(model) * (base + 4); b > lagBytes {
				lagBytes = b
			}
			hist = append(hist, fmt.Sprintf("put %d", nput))
			switch rapid.IntRange(0, 3).Draw(t, "then") {
			case 0:
			case 1:
				k := rapid.IntRange(1, len(model)).Draw(t, "nget")
				get(k, "partial drain")
				hist = append(hist, fmt.Sprintf("get %d", k))
			case 2:
				get(len(model), "full drain")
				hist = append(hist, "drain")
			default:
				k := rapid.IntRange(0, len(model)).Draw(t, "ngetBeforeReopen")
				get(k, "before reopen")
				if err := q.Close(); err != nil {
					t.Fatalf("Close: %v", err)
				}
				q = dqh.Open(dir, max, syncEvery)
				hist = append(hist, fmt.Sprintf("get %d, reopen", k))
			}
			// (the queue accounts for a delivery right after handing the message over: give it a moment)
			d := q.BQ.Depth()
			for dl := time.Now().Add(5 * time.Second); d != int64(len(model)) && time.Now().Before(dl); d = q.BQ.Depth() {
				time.Sleep(200 * time.Microsecond)
			}
			if d != int64(len(model)) {
				t.Fatalf("Depth()=%d, model has %d undelivered messages (%v)", d, len(model), hist)
			}
		}
		get(len(model), "final drain")
		if m, ok := q.Get(5 * time.Millisecond); ok {
			t.Fatalf("drained queue delivered %q (%v)", clipB(m), hist)
		}
		closed = true
		q.Close()
		rec.Case(fmt.Sprintf("max=%d len=%d varied=%v %v", max, base, varied, hist), lagBytes > 70000, fmt.Sprintf("consumer-lag>64KiB=%v", lagBytes > 65536))
		rec.Num("messages", int64(seq))
	})
}

func clipB(b []byte) []byte {
	if len(b) > 40 {
		return b[:40]
	}
	return b
}
