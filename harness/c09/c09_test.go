// C09 — the disk spool queue is an exact persistent FIFO across clean restarts.
package c09

import (
	"bytes"
	"fmt"
	"os"
	"strings"
	"testing"
	"time"

	"pgregory.net/rapid"

	"verifharness/internal/dqh"
	"verifharness/internal/ev"
	"verifharness/internal/h"
)

func TestMain(m *testing.M) { h.Init(); ev.Main(m) }

type hist struct {
	ops []string
}

func (h *hist) add(f string, a ...interface{}) { h.ops = append(h.ops, fmt.Sprintf(f, a...)) }

func runFIFO(t *rapid.T) {
	rec := ev.Get("fifo")
	max := int64(rapid.SampledFrom([]int{1, 2, 5, 9, 16, 33, 64, 200, 1000}).Draw(t, "maxBytesPerFile"))
	syncEvery := int64(rapid.SampledFrom([]int{1, 2, 3, 5, 8, 1000000}).Draw(t, "syncEvery"))
	// one history in three runs with a periodic-sync timer of 2 ms and may sit idle across several of its periods
	// (the relay's spool uses one second); the others keep it at one hour, so that syncs are count-driven
	syncTimeout := time.Hour
	if rapid.IntRange(0, 2).Draw(t, "shortSyncTimer") == 0 {
		syncTimeout = 2 * time.Millisecond
	}
	dqh.SyncTimeout = syncTimeout
	defer func() { dqh.SyncTimeout = time.Hour }()
	idles := 0
	dir := dqh.ScratchDir("c09")
	defer os.RemoveAll(dir)
	var q *dqh.Q
	wedged := false
	defer func() {
		if !wedged {
			q.Close()
		}
	}()
	// every queue operation is bounded: a hang is a failure of the property, not of the harness
	bounded := func(what string, f func()) {
		done := make(chan struct{})
		go func() { f(); close(done) }()
		select {
		case <-done:
		case <-time.After(60 * time.Second):
			wedged = true
			t.Fatalf("%s did not return within 60s", what)
		}
	}

	var model [][]byte
	var hs hist
	hs.add("max=%d sync=%d syncTimer=%s", max, syncEvery, syncTimeout)
	seq := uint32(0)
	delivered := make(chan struct{}, 16)
	hook := func(p string) {
		if p == "delivered-done" {
			delivered <- struct{}{}
		}
	}
	q = dqh.OpenWithHook(dir, max, syncEvery, hook)
	rolled, bigMsg, reopenPending, reopenAfterRoll := false, false, false, false
	hugeMsg := false
	lastPutRolled := false
	pending := false // a message has been read ahead (model non-empty and the loop had a chance to read)

	checkDepth := func(where string) {
		if d := q.BQ.Depth(); d != int64(len(model)) {
			t.Fatalf("%s: Depth()=%d, model has %d undelivered messages; history %v", where, d, len(model), hs.ops)
		}
	}
	t.Repeat(map[string]func(*rapid.T){
		"put": func(t *rapid.T) {
			n := dqh.MsgLen(t, max)
			if rapid.IntRange(0, 59).Draw(t, "huge") == 0 {
				// sizes in absolute terms too (a line of the relay is at most 64 KiB, the queue itself has no limit)
				n = rapid.SampledFrom([]int{65535, 65536, 1<<20 - 4, 1 << 20, 1<<20 + 1, 3<<20 + 7}).Draw(t, "hugelen")
				hugeMsg = true
			}
			seq++
			m := dqh.Msg(seq, n)
			hs.add("put(%d)", n)
			var err error
			bounded(fmt.Sprintf("Put; history %v", hs.ops), func() { err = q.Put(m) })
			if err != nil {
				t.Fatalf("Put failed: %v; history %v", err, hs.ops)
			}
			model = append(model, m)
			lastPutRolled = int64(n+4) > max
			if int64(n) > max {
				bigMsg = true
			}
			rolled = rolled || lastPutRolled
			pending = true
			checkDepth("after put")
		},
		"get": func(t *rapid.T) {
			if len(model) == 0 {
				// nothing must arrive from an empty queue
				if m, ok := q.Get(2 * time.Millisecond); ok {
					t.Fatalf("empty queue delivered %q; history %v", m, hs.ops)
				}
				hs.add("get(empty)")
				return
			}
			m, ok := q.Get(60 * time.Second)
			if !ok {
				t.Fatalf("queue with %d undelivered messages delivered nothing within 60s; history %v", len(model), hs.ops)
			}
			if !bytes.Equal(m, model[0]) {
				t.Fatalf("get returned %q (len %d), want head of model %q (len %d); history %v", m, len(m), model[0], len(model[0]), hs.ops)
			}
			hs.add("get")
			bounded(fmt.Sprintf("advancing the read position after a get; history %v", hs.ops), func() { <-delivered })
			model = model[1:]
			lastPutRolled = false
			checkDepth("after get")
		},
		"idle": func(t *rapid.T) {
			if syncTimeout > time.Second {
				t.Skip("the sync timer never fires in this history")
			}
			// nothing happens for a few periods of the sync timer, whatever state the queue is in (drained in the middle
			// of a segment, a message read ahead, right after a rollover)
			time.Sleep(3 * syncTimeout)
			idles++
			hs.add("idle")
			checkDepth("after an idle period")
		},
		"reopen": func(t *rapid.T) {
			hs.add("reopen")
			var err error
			bounded(fmt.Sprintf("Close; history %v", hs.ops), func() { err = q.Close() })
			if err != nil {
				t.Fatalf("Close failed: %v; history %v", err, hs.ops)
			}
			q.OnPoint(nil)
			q = dqh.OpenWithHook(dir, max, syncEvery, hook)
			if pending && len(model) > 0 {
				reopenPending = true
			}
			if lastPutRolled {
				reopenAfterRoll = true
			}
			checkDepth("after reopen")
		},
	})
	// final: reopen once more and drain to exactly the model
	bounded(fmt.Sprintf("final Close; history %v", hs.ops), func() { q.Close() })
	q.OnPoint(nil)
	q = dqh.OpenWithHook(dir, max, syncEvery, hook)
	checkDepth("after final reopen")
	for i, want := range model {
		m, ok := q.Get(60 * time.Second)
		if !ok {
			t.Fatalf("final drain: message %d of %d never arrived; history %v", i, len(model), hs.ops)
		}
		if !bytes.Equal(m, want) {
			t.Fatalf("final drain: message %d is %q want %q; history %v", i, m, want, hs.ops)
		}
		bounded(fmt.Sprintf("advancing the read position in the final drain; history %v", hs.ops), func() { <-delivered })
	}
	if m, ok := q.Get(3 * time.Millisecond); ok {
		t.Fatalf("final drain: extra message %q after the model was exhausted; history %v", m, hs.ops)
	}
	if d := q.BQ.Depth(); d != 0 {
		t.Fatalf("final drain: Depth()=%d after everything was delivered; history %v", d, hs.ops)
	}
	nt := reopenPending || reopenAfterRoll || bigMsg
	rec.Case(strings.Join(hs.ops, " "), nt && len(hs.ops) > 3,
		fmt.Sprintf("reopen-with-readahead-pending=%v", reopenPending), fmt.Sprintf("reopen-right-after-rollover=%v", reopenAfterRoll),
		fmt.Sprintf("msg-larger-than-segment=%v", bigMsg), fmt.Sprintf("rolled=%v", rolled), fmt.Sprintf("msg>=64KiB=%v", hugeMsg), fmt.Sprintf("idle-across-sync-timer>0=%v", idles > 0))
}

func TestPropFIFO(t *testing.T) { rapid.Check(t, runFIFO) }
