// C10 — aggregations emit exactly one correct point per bucket, once, in order.
package c10

import (
	"fmt"
	"strings"
	"testing"
	"time"

	"github.com/grafana/carbon-relay-ng/aggregator"
	"pgregory.net/rapid"

	"verifharness/internal/aggref"
	"verifharness/internal/ev"
	"verifharness/internal/gen"
	"verifharness/internal/h"
)

func TestMain(m *testing.M) { h.Init(); ev.Main(m) }

type ruleTpl struct {
	regex, fmt string
	names      []string
}

var tpls = []ruleTpl{
	{`^srv\.([a-z]+)\.(cpu|mem)$`, "agg.$1.$2", []string{"srv.a.cpu", "srv.b.cpu", "srv.a.mem", "srv.ab.disk", "srv.a.cpux", "xsrv.a.cpu"}},
	{`^srv\.([a-z]+)\.(cpu|mem)$`, "agg.$2", []string{"srv.a.cpu", "srv.b.cpu", "srv.a.mem", "srv.b.mem", "srv..cpu"}},
	{`^srv\.([a-z]+)\.(cpu|mem)$`, "agg.all", []string{"srv.a.cpu", "srv.b.cpu", "srv.a.mem", "other"}},
	{`(\d+)$`, "n.${1}x", []string{"foo1", "foo12", "bar12", "foo", "5"}},
	{`foo`, "out", []string{"foo", "a.foo.b", "fo", "bar"}},
	{`^(.*)\.count$`, "$1.total", []string{"x.count", "y.count", "x.count.z", ".count"}},
	{`^a(b?)c`, "o$1", []string{"ac", "abc", "abbc", "acd"}},
	// what the expansion does besides $1..$n: the whole match, a literal dollar, a group the pattern does not have, a named group
	{`foo`, "agg.$0", []string{"foo", "a.foo.b", "xfoox", "bar"}},
	{`^srv\.[a-z]+\.cpu$`, "all.${0}.x", []string{"srv.a.cpu", "srv.b.cpu", "srv.ab.mem"}},
	{`(\d+)$`, "n.$$${1}", []string{"foo1", "foo12", "bar12", "foo"}},
	{`foo`, "agg.$1.end", []string{"foo", "a.foo.b", "bar"}},
	{`^(?P<host>[a-z]+)\.load$`, "load.$host.${host}x", []string{"a.load", "web.load", "web.loadx"}},
}

var valPool = []float64{0, 1, -1, 0.5, 2.25, -3.125, 7, 10, 1024.5, 0.125, 100, -0.5, 3, 3, 42}

type emitted struct {
	name  string
	start int64
}

func TestPropAggregator(t *testing.T) {
	rec := ev.Get("aggregator")
	rapid.Check(t, func(t *rapid.T) {
		tpl := rapid.SampledFrom(tpls).Draw(t, "tpl")
		f := gen.Filter{Regex: tpl.regex}
		if rapid.IntRange(0, 4).Draw(t, "extraFilter") == 0 {
			e := gen.GenFilter(t, "ef", 25)
			f.Prefix, f.NotPrefix, f.Sub, f.NotSub, f.NotRegex = e.Prefix, e.NotPrefix, e.Sub, e.NotSub, e.NotRegex
		}
		// output keys of every length from a few bytes to ~150 (whatever is built per key -- buffers, prefixes -- meets
		// every size on the way)
		outFmt := tpl.fmt
		if rapid.Bool().Draw(t, "padkey") {
			outFmt += "." + strings.Repeat("k", rapid.IntRange(1, 140).Draw(t, "keypad"))
		}
		rule := aggref.Rule{
			Fun:      rapid.SampledFrom(aggref.Funs).Draw(t, "fun"),
			Filter:   f,
			OutFmt:   outFmt,
			Interval: int64(rapid.SampledFrom([]int{1, 2, 5, 10, 60}).Draw(t, "interval")),
			Wait:     int64(rapid.SampledFrom([]int{0, 1, 5, 10, 20, 120}).Draw(t, "wait")),
		}
		cache := rapid.Bool().Draw(t, "cache")
		clock := int64(1500000000 + rapid.IntRange(0, 59).Draw(t, "clock0"))
		now := func() time.Time { return time.Unix(clock, 0) }
		out := make(chan []byte, 100000)
		tick := make(chan time.Time)
		agg, err := aggregator.NewMocked(rule.Fun, f.MustMatcher(), rule.OutFmt, cache, uint(rule.Interval), uint(rule.Wait), false, out, 0, now, tick)
		if err != nil {
			t.Fatalf("HARNESS-ERROR: %v", err)
		}
		defer agg.Shutdown()
		ref := aggref.New(rule)
		tooOld0 := h.Count("module=aggregator.unit=Metric.what=TooOld")
		lastTick := int64(0)
		everEmitted := map[string]bool{}
		var hist []string
		sawMultiOpen, sawOutOfOrder, sawAtCutoff, sawLate := false, false, false, false
		maxTsSeen := int64(0)
		closedStarts := map[int64]bool{}

		drainAndCompare := func(want []aggref.Out, when string) {
			var got []string
			for {
				select {
				case b := <-out:
					got = append(got, string(b))
					continue
				default:
				}
				break
			}
			// parse
			type gl struct {
				name  string
				val   float64
				start int64
				raw   string
			}
			var gls []gl
			for _, g := range got {
				var l gl
				l.raw = g
				fs := strings.Fields(g)
				if len(fs) != 3 {
					t.Fatalf("%s: malformed aggregation output %q; history %v", when, g, hist)
				}
				l.name = fs[0]
				if _, err := fmt.Sscanf(fs[1], "%g", &l.val); err != nil {
					t.Fatalf("%s: bad value in %q", when, g)
				}
				if _, err := fmt.Sscanf(fs[2], "%d", &l.start); err != nil {
					t.Fatalf("%s: bad timestamp in %q", when, g)
				}
				if dot := strings.IndexByte(fs[1], '.'); dot < 0 || len(fs[1])-dot-1 != 6 {
					t.Fatalf("%s: value %q not printed with six decimals", when, fs[1])
				}
				gls = append(gls, l)
			}
			// ascending bucket order
			for i := 1; i < len(gls); i++ {
				if gls[i].start < gls[i-1].start {
					t.Fatalf("%s: buckets not emitted in ascending timestamp order: %q; history %v", when, got, hist)
				}
			}
			// never twice
			for _, l := range gls {
				k := fmt.Sprintf("%s@%d", l.name, l.start)
				if everEmitted[k] {
					t.Fatalf("%s: bucket %s emitted twice; history %v", when, k, hist)
				}
				everEmitted[k] = true
			}
			// multiset equality with the reference
			used := make([]bool, len(gls))
			for _, w := range want {
				found := false
				for i, l := range gls {
					if !used[i] && l.name == w.Name && l.start == w.Start && w.Accepts(l.val) {
						used[i] = true
						found = true
						break
					}
				}
				if !found {
					t.Fatalf("%s: rule %+v cache=%v: expected output %q missing; got %q; history %v", when, rule, cache, w.String(), got, hist)
				}
			}
			for i, l := range gls {
				if !used[i] {
					t.Fatalf("%s: rule %+v cache=%v: unexpected output %q; reference expects %v; history %v", when, rule, cache, l.raw, want, hist)
				}
			}
		}

		t.Repeat(map[string]func(*rapid.T){
			"point": func(t *rapid.T) {
				name := rapid.SampledFrom(tpl.names).Draw(t, "name")
				v := rapid.SampledFrom(valPool).Draw(t, "val")
				cur := clock - clock%rule.Interval
				cands := []int64{clock, clock - 1, cur, cur - rule.Interval, cur - 2*rule.Interval, clock - rule.Wait, clock - rule.Wait + 1, clock - rule.Wait - 1,
					(clock - rule.Wait) - (clock-rule.Wait)%rule.Interval, (clock-rule.Wait)-(clock-rule.Wait)%rule.Interval + rule.Interval,
					clock - 10*rule.Wait - 100, clock + 2*rule.Interval, cur + rule.Interval - 1, lastTick - rule.Wait, lastTick - rule.Wait + 1}
				ts := rapid.SampledFrom(cands).Draw(t, "ts")
				if ts <= 0 {
					ts = clock
				}
				start := ts - ts%rule.Interval
				existed := ref.HasBucket(name, ts)
				what := ref.Point(name, v, ts, clock)
				agg.AddMaybe([][]byte{[]byte(name), []byte(fmt.Sprint(v)), []byte(fmt.Sprint(ts))}, v, uint32(ts))
				h.AggBarrier(agg)
				hist = append(hist, fmt.Sprintf("point(%s,%g,%d)->%s", name, v, ts, what))
				if what != "nomatch" {
					if ts < maxTsSeen {
						sawOutOfOrder = true
					}
					if ts > maxTsSeen {
						maxTsSeen = ts
					}
					if start == clock-rule.Wait || start == clock-rule.Wait+1 {
						sawAtCutoff = true
					}
					if what == "tooold" && closedStarts[start] && !existed {
						sawLate = true
					}
					if len(ref.OpenStarts()) >= 2 {
						sawMultiOpen = true
					}
				}
				if got := h.Count("module=aggregator.unit=Metric.what=TooOld") - tooOld0; got != ref.TooOld {
					t.Fatalf("rule %+v: TooOld counter=%d, reference=%d after %v", rule, got, ref.TooOld, hist)
				}
			},
			"advance": func(t *rapid.T) {
				dt := rapid.SampledFrom([]int64{0, 1, 1, rule.Interval - 1, rule.Interval, rule.Wait, rule.Wait + 1, rule.Interval + rule.Wait, 3 * rule.Interval}).Draw(t, "dt")
				if dt < 0 {
					dt = 0
				}
				clock += dt
				hist = append(hist, fmt.Sprintf("clock=%d", clock))
			},
			"tick": func(t *rapid.T) {
				tt := clock - int64(rapid.SampledFrom([]int{0, 0, 0, 1, 2}).Draw(t, "tickLag"))
				if tt < lastTick {
					tt = lastTick
				}
				if tt > clock {
					tt = clock
				}
				lastTick = tt
				for s := range ref.OpenStarts() {
					if s <= tt-rule.Wait {
						closedStarts[s] = true
					}
				}
				want := ref.Tick(tt)
				tick <- time.Unix(tt, 0)
				h.AggBarrier(agg)
				hist = append(hist, fmt.Sprintf("tick(%d)->%d", tt, len(want)))
				drainAndCompare(want, fmt.Sprintf("tick(%d)", tt))
			},
		})
		// final: everything still open must come out exactly once
		clock += 1000000
		want := ref.Tick(clock)
		tick <- time.Unix(clock, 0)
		h.AggBarrier(agg)
		hist = append(hist, "final-tick")
		drainAndCompare(want, "final tick")
		nt := sawMultiOpen && sawOutOfOrder && sawAtCutoff && sawLate
		rec.Case(fmt.Sprintf("%+v cache=%v %s", rule, cache, strings.Join(hist, " ")), nt,
			"fun="+rule.Fun, fmt.Sprintf("multi-open=%v", sawMultiOpen), fmt.Sprintf("out-of-order=%v", sawOutOfOrder),
			fmt.Sprintf("at-cutoff=%v", sawAtCutoff), fmt.Sprintf("late-for-closed=%v", sawLate))
	})
}
