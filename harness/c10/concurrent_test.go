// C10 — points arriving from several input connections at once: "each point ... contributes exactly once to the bucket
// identified by its expanded output name and bucket start, and to no other", whatever the aggregation shares between the
// goroutines that hand points in (match cache, inbox).
package c10

import (
	"fmt"
	"sort"
	"sync"
	"testing"
	"time"

	"github.com/grafana/carbon-relay-ng/aggregator"
	"github.com/grafana/carbon-relay-ng/matcher"
	"pgregory.net/rapid"

	"verifharness/internal/ev"
	"verifharness/internal/h"
)

var concSeq int

func TestPropConcurrentPoints(t *testing.T) {
	rec := ev.Get("concurrent_points")
	rapid.Check(t, func(t *rapid.T) {
		concSeq++
		const T = 1500000000
		fn := rapid.SampledFrom([]string{"sum", "count", "min", "max"}).Draw(t, "fn")
		cache := rapid.Bool().Draw(t, "cache")
		dropRaw := rapid.Bool().Draw(t, "dropRaw")
		inBuf := rapid.SampledFrom([]int{0, 1, 100, 2000}).Draw(t, "inbuf")
		senders := rapid.IntRange(2, 8).Draw(t, "senders")
		per := rapid.SampledFrom([]int{20, 200, 1500}).Draw(t, "points-per-sender")
		nseries := rapid.SampledFrom([]int{1, 5, 60, 1000}).Draw(t, "series")
		am, _ := matcher.New("", "", "", "", fmt.Sprintf(`^c10c%d\.(.*)`, concSeq), "")
		out := make(chan []byte, 200000)
		tick := make(chan time.Time)
		agg, err := aggregator.NewMocked(fn, am, "c10out.$1", cache, 10, 100, dropRaw, out, inBuf, func() time.Time { return time.Unix(T, 0) }, tick)
		if err != nil {
			t.Fatalf("HARNESS-ERROR: %v", err)
		}
		defer agg.Shutdown()
		inCounter := "unit=Metric.direction=in.aggregator=" + agg.Key
		in0 := h.Count(inCounter)
		type pt struct {
			name string
			val  int
			ts   uint32
		}
		plans := make([][]pt, senders)
		want := map[string][]float64{}
		nMatch := 0
		for g := range plans {
			for i := 0; i < per; i++ {
				p := pt{val: rapid.IntRange(-50, 1000).Draw(t, "val"), ts: uint32(T - rapid.SampledFrom([]int{0, 3, 10, 25}).Draw(t, "age"))}
				if rapid.IntRange(0, 9).Draw(t, "other") == 0 {
					p.name = fmt.Sprintf("other%d.s%d", concSeq, rapid.IntRange(0, nseries-1).Draw(t, "series-id"))
				} else {
					p.name = fmt.Sprintf("c10c%d.s%d", concSeq, rapid.IntRange(0, nseries-1).Draw(t, "series-id"))
					key := fmt.Sprintf("c10out.%s %d", p.name[len(fmt.Sprintf("c10c%d.", concSeq)):], p.ts-p.ts%10)
					want[key] = append(want[key], float64(p.val))
					nMatch++
				}
				plans[g] = append(plans[g], p)
			}
		}
		wrong := make(chan string, senders)
		start := make(chan struct{})
		var wg sync.WaitGroup
		for g := range plans {
			wg.Add(1)
			go func(g int) {
				defer wg.Done()
				defer func() {
					if r := recover(); r != nil {
						wrong <- fmt.Sprintf("handing a point to the aggregation panicked: %v", r)
					}
				}()
				<-start
				for _, p := range plans[g] {
					fields := [][]byte{[]byte(p.name), []byte(fmt.Sprint(p.val)), []byte(fmt.Sprint(p.ts))}
					consumed := agg.AddMaybe(fields, float64(p.val), p.ts)
					if matches := p.name[0] == 'c'; consumed != (dropRaw && matches) {
						wrong <- fmt.Sprintf("point %q: consumed=%v, but dropRaw=%v and the filter verdict is %v", p.name, consumed, dropRaw, matches)
						return
					}
				}
			}(g)
		}
		close(start)
		wg.Wait()
		ctx := fmt.Sprintf("%s regex=^c10c%d\\.(.*) -> c10out.$1 cache=%v dropRaw=%v inbox=%d; %d senders x %d points over %d series", fn, concSeq, cache, dropRaw, inBuf, senders, per, nseries)
		select {
		case w := <-wrong:
			t.Fatalf("%s; %s", w, ctx)
		default:
		}
		for dl := time.Now().Add(5 * time.Second); h.Count(inCounter)-in0 < int64(nMatch) && time.Now().Before(dl); {
			time.Sleep(100 * time.Microsecond)
		}
		if got := h.Count(inCounter) - in0; got != int64(nMatch) {
			t.Fatalf("%d matching points were handed in, the aggregation counted %d; %s", nMatch, got, ctx)
		}
		tick <- time.Unix(T+100000, 0)
		h.AggBarrier(agg)
		var got []string
		for len(out) > 0 {
			got = append(got, string(<-out))
		}
		var wantL []string
		for k, vs := range want {
			var v float64
			switch fn {
			case "sum":
				for _, x := range vs {
					v += x
				}
			case "count":
				v = float64(len(vs))
			case "min":
				v = vs[0]
				for _, x := range vs {
					if x < v {
						v = x
					}
				}
			case "max":
				v = vs[0]
				for _, x := range vs {
					if x > v {
						v = x
					}
				}
			}
			var name string
			var b int
			fmt.Sscanf(k, "%s %d", &name, &b)
			wantL = append(wantL, fmt.Sprintf("%s %f %d", name, v, b))
		}
		sort.Strings(got)
		sort.Strings(wantL)
		if len(got) != len(wantL) {
			t.Fatalf("the aggregation emitted %d lines, the points handed in make %d buckets; %s", len(got), len(wantL), ctx)
		}
		for i := range got {
			if got[i] != wantL[i] {
				t.Fatalf("emitted %q, the points handed in give %q; %s", got[i], wantL[i], ctx)
			}
		}
		rec.Case(ctx, len(wantL) >= 2, "fn="+fn, fmt.Sprintf("cache=%v", cache), fmt.Sprintf("senders=%d", senders))
		rec.Num("points", int64(senders*per))
	})
}
