// C11 — aggregation output bypasses the pipeline, cannot loop; drop-raw is exact.
package c11

import (
	"fmt"
	"math"
	"sort"
	"strings"
	"testing"
	"time"

	"github.com/grafana/carbon-relay-ng/aggregator"
	"github.com/grafana/carbon-relay-ng/matcher"
	"github.com/grafana/carbon-relay-ng/validate"
	m20 "github.com/metrics20/go-metrics20/carbon20"
	"pgregory.net/rapid"

	"verifharness/internal/aggref"
	"verifharness/internal/ev"
	"verifharness/internal/gen"
	"verifharness/internal/h"
	"verifharness/internal/ref"
)

func TestMain(m *testing.M) { h.Init(); ev.Main(m) }

type aggTpl struct{ regex, fmt string }

var aggTpls = []aggTpl{
	{`^foo\.(.*)$`, "foo.agg.$1"},      // output matches its own regex
	{`^foo\.`, "bar.total"},            // feeds the ^bar\. rule by name
	{`^bar\.(\w+)`, "baz.$1"},          //
	{`(.*)`, "all.$1"},                 // matches everything, including its own output
	{`\.cpu$`, "agg.cpu!bad..name"},    // output would not pass strict validation
	{`^srv\.([a-z]+)\.`, "srv.$1.sum"}, // output matches its own regex
	{`^baz\.`, "foo.fromBaz"},          // closes a cycle foo -> bar -> baz -> foo by name
	{`total$`, "grand.total"},          // self-matching by suffix
}

var namePool = []string{"foo.a", "foo.b.cpu", "foo.agg.a", "bar.x", "bar.total", "srv.a.cpu", "srv.b.mem", "srv.a.sum", "baz.q", "other", "all.foo.a", "x.total", "grand.total", "foo.fromBaz"}

var blFilters = []gen.Filter{{Prefix: "foo.agg"}, {Sub: "total"}, {Regex: `^all\.`}, {Prefix: "baz."}, {Sub: "!bad"}, {Regex: `\.sum$`}, {Prefix: "other"}, {Sub: "b.cpu"}, {Regex: `^grand`, NotSub: "x"}}

var rwRules = []ref.RW{{Old: "agg", New: "AGG", Max: -1}, {Old: "total", New: "T", Max: 1}, {Old: `/^all\./`, New: "ALL.", Max: -1}, {Old: "baz", New: "BAZ", Max: -1},
	{Old: `/\.sum$/`, New: ".SUM", Max: -1}, {Old: "foo.a", New: "foo.z", Max: -1}, {Old: "bar", New: "foo", Max: 1, Not: "total"}, {Old: "..", New: ".", Max: -1}}

var routeFilters = []gen.Filter{{}, {Prefix: "foo"}, {Sub: "agg"}, {Regex: `total$`}, {NotPrefix: "all."}, {Regex: `^(bar|baz)\.`}, {Sub: "!"}, {NotRegex: `\.sum$`}, {Prefix: "srv.", NotSub: "cpu"}, {Regex: `^all\.`}}

var vals = []float64{1, 2, 0.5, -1, 10, 3.25, 100}

func TestPropAggregateBypass(t *testing.T) {
	rec := ev.Get("aggregate_bypass")
	rapid.Check(t, func(t *rapid.T) {
		m := &ref.Model{}
		for i, n := 0, rapid.IntRange(0, 2).Draw(t, "nblack"); i < n; i++ {
			m.Blacklist = append(m.Blacklist, rapid.SampledFrom(blFilters).Draw(t, "bl"))
		}
		for i, n := 0, rapid.IntRange(0, 2).Draw(t, "nrw"); i < n; i++ {
			m.Rewriters = append(m.Rewriters, rapid.SampledFrom(rwRules).Draw(t, "rw"))
		}
		na := rapid.IntRange(1, 4).Draw(t, "nagg")
		var fmts []string
		fun := rapid.SampledFrom([]string{"sum", "count", "max", "last", "min"}).Draw(t, "fun")
		var refs []*aggref.Agg
		for i := 0; i < na; i++ {
			tp := rapid.SampledFrom(aggTpls).Draw(t, "aggtpl")
			f := gen.Filter{Regex: tp.regex}
			if rapid.IntRange(0, 3).Draw(t, "aggextra") == 0 {
				e := rapid.SampledFrom([]gen.Filter{{Prefix: "foo"}, {NotSub: "cpu"}, {Sub: "a"}, {NotRegex: `agg`}, {NotPrefix: "bar.t"}, {Sub: "."}}).Draw(t, "aggopt")
				f.Prefix, f.NotPrefix, f.Sub, f.NotSub, f.NotRegex = e.Prefix, e.NotPrefix, e.Sub, e.NotSub, e.NotRegex
			}
			a := ref.AggModel{Filter: f, DropRaw: rapid.IntRange(0, 2).Draw(t, "dropraw") == 0, Cache: rapid.Bool().Draw(t, "cache")}
			m.Aggs = append(m.Aggs, a)
			fmts = append(fmts, tp.fmt)
			refs = append(refs, aggref.New(aggref.Rule{Fun: fun, Filter: f, OutFmt: tp.fmt, Interval: 10, Wait: 100}))
		}
		nr := rapid.IntRange(1, 4).Draw(t, "nroutes")
		for i := 0; i < nr; i++ {
			m.Routes = append(m.Routes, ref.RouteModel{Key: fmt.Sprintf("r%d", i), Type: "capture", Filter: rapid.SampledFrom(routeFilters).Draw(t, "rf")})
		}
		stuck := false
		b := ref.Build(m, ref.BuildOpts{AggToIn: true, AggFun: fun, AggFmts: fmts, InBuf: 0})
		defer func() {
			if !stuck {
				b.Close()
			}
		}()
		// strict validation for raw input: aggregate names like "agg.cpu!bad..name" must still get through
		b.Tab.VerifReset(mustCfgLike(b, t))
		reAdd(b, m)
		// completion barrier for lines entering through table.In: a catch route for
		// sentinel lines, placed LAST: once it holds a sentinel, every route before it
		// has seen that sentinel and everything queued before it.
		cm, _ := matcher.New("verif.sentinel", "", "", "", "", "")
		catcher := h.NewCaptureRoute("zz-sentinel", cm)
		b.Tab.AddRoute(catcher)
		aggBarrier := func(a *aggregator.Aggregator) {
			done := make(chan struct{})
			go func() { a.Snapshot(); close(done) }()
			select {
			case <-done:
			case <-time.After(20 * time.Second):
				stuck = true
				t.Fatalf("an aggregation stopped responding within 20s (blocked on its output: aggregation output path stuck / looping)\ntable: %s", m)
			}
		}
		inBarrier := func() {
			n := len(catcher.Lines())
			sent := make(chan struct{})
			go func() { b.Tab.In <- []byte("verif.sentinel.nomatch 0 0"); close(sent) }()
			select {
			case <-sent:
			case <-time.After(20 * time.Second):
				stuck = true
				t.Fatalf("table.In stopped accepting lines within 20s (aggregation output path stuck / looping)\ntable: %s", m)
			}
			deadline := time.Now().Add(20 * time.Second)
			for len(catcher.Lines()) <= n {
				if time.Now().After(deadline) {
					t.Fatalf("table.In stopped consuming: a line queued behind the aggregation output never reached the routes within 20s (aggregation output path stuck / looping)\ntable: %s", m)
				}
				time.Sleep(20 * time.Microsecond)
			}
		}
		capLines := func(ri int) []string {
			var out []string
			for _, l := range b.Caps[ri].Lines() {
				if !strings.HasPrefix(l, "verif.sentinel") {
					out = append(out, l)
				}
			}
			return out
		}

		now := *b.Clock
		want := make([][]string, nr) // per capture route: expected lines, raw part in order
		base := make([]int, nr)      // lines held at the start of the current round
		var hist []string
		selfFeeding, droprawPrePassRegexReject := false, false
		rounds := rapid.IntRange(1, 3).Draw(t, "rounds")
		modded := false
		nanSeen := false
		totalAggLines := 0
		c0 := h.ReadTableCounters()
		var wantUnroutable, wantBlack int64
		nraw := 0
		for round := 0; round < rounds; round++ {
			nl := rapid.IntRange(1, 20).Draw(t, "nlines")
			for i := 0; i < nl; i++ {
				name := rapid.SampledFrom(namePool).Draw(t, "name")
				v := rapid.SampledFrom(vals).Draw(t, "val")
				if (fun == "count" || fun == "last") && rapid.IntRange(0, 9).Draw(t, "nan") == 0 {
					v = math.NaN() // a legal value at every validation level; what is withheld depends on the name only
					nanSeen = true
				}
				ts := now - int64(rapid.IntRange(0, 50).Draw(t, "age"))
				line := fmt.Sprintf("%s %v %d", name, v, ts)
				nraw++
				o := m.Dispatch(name)
				hist = append(hist, line)
				if o.Blacklisted {
					wantBlack++
				} else {
					for _, ai := range o.AggSeen {
						refs[ai].Point(o.NewName, v, ts, now)
					}
					// a drop-raw rule whose cheap options pass but whose regex (or notRegex) rejects
					for ai, a := range m.Aggs {
						if a.DropRaw {
							p := a.Filter.Ref().Parts(o.NewName)
							if p[0] && p[1] && p[2] && p[3] && !(p[4] && p[5]) {
								droprawPrePassRegexReject = true
							}
							_ = ai
						}
					}
					if !o.DroppedRaw {
						if o.Unroutable {
							wantUnroutable++
						}
						for _, ri := range o.Routes {
							want[ri] = append(want[ri], fmt.Sprintf("%s %v %d", o.NewName, v, ts))
						}
					}
				}
				b.Tab.Dispatch([]byte(line))
			}
			// raw phase done: compare exactly, in order
			for ri := range m.Routes {
				// exact order for what this round's raw lines added (earlier aggregate output has no fixed order within a bucket)
				got, w := capLines(ri), want[ri]
				if len(got) >= base[ri] && len(w) >= base[ri] {
					got, w = got[base[ri]:], w[base[ri]:]
				}
				if fmt.Sprint(got) != fmt.Sprint(w) {
					t.Fatalf("after the raw lines of round %d, route %s %s received %q, reference says %q\ntable: %s\nlines: %q", round, m.Routes[ri].Key, m.Routes[ri].Filter, got, want[ri], m, hist)
				}
			}
			// tick every aggregation (far enough to close every bucket), one at a time
			for ai := range m.Aggs {
				aggBarrier(b.Aggs[ai])
				tt := now + 100000
				outs := refs[ai].Tick(tt)
				b.Ticks[ai] <- time.Unix(tt, 0)
				aggBarrier(b.Aggs[ai])
				inBarrier()
				for _, o := range outs {
					totalAggLines++
					ro := m.RouteOnly(o.Name)
					if ro.Unroutable {
						wantUnroutable++
					}
					for _, ri := range ro.Routes {
						want[ri] = append(want[ri], o.String())
					}
					for _, a := range m.Aggs {
						if a.Filter.Ref().Match(o.Name) {
							selfFeeding = true
						}
					}
				}
				hist = append(hist, fmt.Sprintf("tick(agg%d)->%d", ai, len(outs)))
			}
			// compare as multisets (order of keys within one bucket is unspecified)
			for ri := range m.Routes {
				got := capLines(ri)
				g, w := append([]string(nil), got...), append([]string(nil), want[ri]...)
				sort.Strings(g)
				sort.Strings(w)
				if fmt.Sprint(g) != fmt.Sprint(w) {
					t.Fatalf("after the ticks of round %d, route %s %s holds %q, reference says %q\ntable: %s\nformats: %q\nhistory: %q", round, m.Routes[ri].Key, m.Routes[ri].Filter, got, want[ri], m, fmts, hist)
				}
			}
			for ri := range m.Routes {
				base[ri] = len(want[ri])
			}
			now += 200000
			*b.Clock = now
			// between rounds an operator may change a route's filter in place (modRoute): aggregate output of the next
			// round -- the same aggregate names again -- is routed by the filters as they are then
			if round+1 < rounds && rapid.Bool().Draw(t, "modRoute") {
				ri := rapid.IntRange(0, nr-1).Draw(t, "modwhich")
				nf := rapid.SampledFrom(routeFilters).Draw(t, "modfilter")
				opts := map[string]string{"prefix": nf.Prefix, "notPrefix": nf.NotPrefix, "sub": nf.Sub, "notSub": nf.NotSub, "regex": nf.Regex, "notRegex": nf.NotRegex}
				if err := b.Tab.UpdateRoute(m.Routes[ri].Key, opts); err != nil {
					t.Fatalf("UpdateRoute(%s, %v): %v", m.Routes[ri].Key, opts, err)
				}
				m.Routes[ri].Filter = nf
				hist = append(hist, fmt.Sprintf("modRoute(%s,%s)", m.Routes[ri].Key, nf))
				modded = true
			}
		}
		// quiescence: another tick of every aggregation must produce nothing (no loop, no amplification)
		for ai := range m.Aggs {
			b.Ticks[ai] <- time.Unix(now+500000, 0)
			aggBarrier(b.Aggs[ai])
		}
		inBarrier()
		for ri := range m.Routes {
			if got := capLines(ri); len(got) != len(want[ri]) {
				t.Fatalf("after everything was flushed, route %s still received %q: aggregation output re-entered an aggregation\ntable: %s\nhistory: %q", m.Routes[ri].Key, got[len(want[ri]):], m, hist)
			}
		}
		c1 := h.ReadTableCounters().Sub(c0)
		if c1.In != int64(nraw) || c1.Invalid != 0 || c1.Blacklist != wantBlack || c1.Unroutable != wantUnroutable {
			t.Fatalf("counters in=%d invalid=%d blacklist=%d unroutable=%d; reference: in=%d invalid=0 blacklist=%d unroutable=%d (aggregation output must not be counted as input, validated or blacklisted)\ntable: %s\nhistory %q",
				c1.In, c1.Invalid, c1.Blacklist, c1.Unroutable, nraw, wantBlack, wantUnroutable, m, hist)
		}
		rec.Case(m.String()+" "+strings.Join(hist, ","), (selfFeeding && totalAggLines > 0) || droprawPrePassRegexReject,
			fmt.Sprintf("self-or-chain-feeding=%v", selfFeeding), fmt.Sprintf("dropraw-prefilter-pass-regex-reject=%v", droprawPrePassRegexReject), fmt.Sprintf("agglines>0=%v", totalAggLines > 0), fmt.Sprintf("route-filter-changed-between-rounds=%v", modded), fmt.Sprintf("NaN-value=%v", nanSeen))
	})
}

// the shared table was reset by Build with default validation; switch it to strict and re-add the entries
func mustCfgLike(b *ref.Built, t *rapid.T) (cfg tableConfig) {
	c, err := newTableConfig(validate.LevelLegacy{Level: m20.StrictLegacy}, validate.LevelM20{Level: m20.MediumM20})
	if err != nil {
		t.Fatalf("HARNESS-ERROR: %v", err)
	}
	return c
}

var _ = aggregator.InitMetrics
