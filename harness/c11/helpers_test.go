package c11

import (
	"github.com/grafana/carbon-relay-ng/table"
	"github.com/grafana/carbon-relay-ng/validate"

	"verifharness/internal/ref"
)

type tableConfig = table.TableConfig

func newTableConfig(l validate.LevelLegacy, m validate.LevelM20) (table.TableConfig, error) {
	return table.NewTableConfig("/nonexistent-spool", "1h", l, m, false)
}

// reAdd installs the entries Build created into the (re-reset) table again, in the same order.
func reAdd(b *ref.Built, m *ref.Model) {
	for _, f := range m.Blacklist {
		mm := f.MustMatcher()
		b.Tab.AddBlacklist(&mm)
	}
	for _, r := range m.Rewriters {
		rw, _ := r.Real()
		b.Tab.AddRewriter(rw)
	}
	for _, a := range b.Aggs {
		b.Tab.AddAggregator(a)
	}
	for _, r := range b.Routes {
		b.Tab.AddRoute(r)
	}
}
