// C12 — input framing is independent of how the network chops the stream.
package c12

import (
	"bytes"
	"fmt"
	"io"
	"net"
	"strings"
	"sync"
	"testing"
	"time"

	"github.com/grafana/carbon-relay-ng/cfg"
	"github.com/grafana/carbon-relay-ng/input"
	"github.com/streadway/amqp"
	"pgregory.net/rapid"

	"verifharness/internal/ev"
	"verifharness/internal/h"
)

func TestMain(m *testing.M) { h.Init(); ev.Main(m) }

// capture dispatcher: copies the argument at call time
type capDisp struct {
	mu      sync.Mutex
	lines   []string
	invalid int
}

func (c *capDisp) Dispatch(buf []byte) {
	c.mu.Lock()
	c.lines = append(c.lines, string(buf))
	c.mu.Unlock()
}
func (c *capDisp) IncNumInvalid() { c.mu.Lock(); c.invalid++; c.mu.Unlock() }
func (c *capDisp) get() []string {
	c.mu.Lock()
	defer c.mu.Unlock()
	return append([]string(nil), c.lines...)
}

// refSplit: the reference meaning of a plain-text stream.
func refSplit(stream []byte) []string {
	var out []string
	for len(stream) > 0 {
		i := bytes.IndexByte(stream, '\n')
		var line []byte
		if i < 0 {
			line, stream = stream, nil
		} else {
			line, stream = stream[:i], stream[i+1:]
		}
		if n := len(line); n > 0 && line[n-1] == '\r' {
			line = line[:n-1]
		}
		out = append(out, string(line))
	}
	return out
}

func nonEmpty(ls []string) []string {
	var out []string
	for _, l := range ls {
		if l != "" {
			out = append(out, l)
		}
	}
	return out
}

func short(ls []string) string {
	var sb strings.Builder
	sb.WriteString("[")
	for i, l := range ls {
		if i > 0 {
			sb.WriteString(" | ")
		}
		if len(l) > 40 {
			fmt.Fprintf(&sb, "%q...(%dB)", l[:40], len(l))
		} else {
			fmt.Fprintf(&sb, "%q", l)
		}
	}
	sb.WriteString("]")
	return sb.String()
}

func sameLines(a, b []string) bool {
	if len(a) != len(b) {
		return false
	}
	for i := range a {
		if a[i] != b[i] {
			return false
		}
	}
	return true
}

// ---- stream generator -------------------------------------------------------------

type lineSpec struct {
	body string
	term string
}

func genLine(t *rapid.T, maxLen int) string {
	k := rapid.IntRange(0, 19).Draw(t, "lineclass")
	mk := func(n int) string {
		if n <= 0 {
			return ""
		}
		base := fmt.Sprintf("m%d.x 1 %d", n, 1500000000+n)
		if len(base) >= n {
			return base[:n]
		}
		return base + strings.Repeat("y", n-len(base))
	}
	switch {
	case k == 0:
		return ""
	case k <= 9:
		return mk(rapid.IntRange(1, 40).Draw(t, "len"))
	case k <= 11:
		return "a\rb 1 2" // carriage return inside a line
	case k <= 13 && maxLen >= 5000:
		return mk(rapid.IntRange(4090, 4100).Draw(t, "len")) // around the default bufio size
	case k == 14 && maxLen >= 65535:
		return mk(rapid.IntRange(65500, 65534).Draw(t, "len")) // just below the 64 KiB limit
	case k == 15 && maxLen >= 9000:
		return mk(rapid.IntRange(8190, 8200).Draw(t, "len"))
	case k == 16 && maxLen <= 8192:
		return mk(rapid.IntRange(maxLen-6, maxLen).Draw(t, "len")) // at the supported limit (clamped with its terminator)
	case k == 17 && maxLen <= 8192:
		return mk(rapid.IntRange(200, maxLen).Draw(t, "len"))
	default:
		return mk(rapid.IntRange(1, min(maxLen, 200)).Draw(t, "len"))
	}
}

// genStream draws lines and terminators; total line length incl. terminator <= maxLen+?.
func genStream(t *rapid.T, maxLines, maxLen int) ([]byte, int) {
	n := rapid.IntRange(0, maxLines).Draw(t, "nlines")
	var sb bytes.Buffer
	for i := 0; i < n; i++ {
		l := genLine(t, maxLen)
		term := rapid.SampledFrom([]string{"\n", "\n", "\n", "\r\n"}).Draw(t, "term")
		if i == n-1 && rapid.IntRange(0, 2).Draw(t, "lastUnterminated") == 0 {
			term = ""
		}
		if len(l)+len(term) > maxLen {
			l = l[:maxLen-len(term)]
		}
		sb.WriteString(l)
		sb.WriteString(term)
	}
	return sb.Bytes(), n
}

// ---- scripted reader ----------------------------------------------------------------

type timeoutErr struct{}

func (timeoutErr) Error() string   { return "i/o timeout" }
func (timeoutErr) Timeout() bool   { return true }
func (timeoutErr) Temporary() bool { return true }

type scripted struct {
	segs    [][]byte
	endMode int // 0: (0, EOF) after data; 1: last data together with EOF; 2: last data together with a timeout error; 3: (0, timeout) after data
	i       int
}

func (s *scripted) Read(p []byte) (int, error) {
	for s.i < len(s.segs) && len(s.segs[s.i]) == 0 {
		s.i++
	}
	if s.i >= len(s.segs) {
		if s.endMode == 3 || s.endMode == 2 {
			return 0, timeoutErr{}
		}
		return 0, io.EOF
	}
	n := copy(p, s.segs[s.i])
	s.segs[s.i] = s.segs[s.i][n:]
	last := false
	if len(s.segs[s.i]) == 0 {
		s.i++
		last = s.i >= len(s.segs)
	}
	if last {
		switch s.endMode {
		case 1:
			return n, io.EOF
		case 2:
			return n, timeoutErr{}
		}
	}
	return n, nil
}

func cutAt(stream []byte, cuts []int) [][]byte {
	var segs [][]byte
	prev := 0
	for _, c := range cuts {
		if c <= prev || c >= len(stream) {
			continue
		}
		segs = append(segs, append([]byte(nil), stream[prev:c]...))
		prev = c
	}
	segs = append(segs, append([]byte(nil), stream[prev:]...))
	return segs
}

func genCuts(t *rapid.T, n int) []int {
	if n <= 1 {
		return nil
	}
	switch rapid.IntRange(0, 4).Draw(t, "cutstyle") {
	case 0:
		return nil
	case 1: // one-byte reads
		c := make([]int, 0, n)
		for i := 1; i < n; i++ {
			c = append(c, i)
		}
		return c
	case 2: // fixed size
		sz := rapid.SampledFrom([]int{2, 3, 7, 16, 4095, 4096, 4097}).Draw(t, "segsize")
		var c []int
		for i := sz; i < n; i += sz {
			c = append(c, i)
		}
		return c
	default:
		k := rapid.IntRange(1, 8).Draw(t, "ncuts")
		c := make([]int, k)
		for i := range c {
			c[i] = rapid.IntRange(1, n-1).Draw(t, "cut")
		}
		// sort
		for i := 1; i < len(c); i++ {
			for j := i; j > 0 && c[j] < c[j-1]; j-- {
				c[j], c[j-1] = c[j-1], c[j]
			}
		}
		return c
	}
}

func cutInsideLine(stream []byte, cuts []int) bool {
	for _, c := range cuts {
		if c > 0 && c < len(stream) && stream[c-1] != '\n' {
			return true
		}
	}
	return false
}

func runPlain(stream []byte, segs [][]byte, endMode int) ([]string, error) {
	d := &capDisp{}
	err := input.NewPlain(d).Handle(&scripted{segs: segs, endMode: endMode})
	return d.get(), err
}

func TestPropPlainChunking(t *testing.T) {
	rec := ev.Get("plain_scripted_reader")
	rapid.Check(t, func(t *rapid.T) {
		stream, nl := genStream(t, 12, 65536)
		want := nonEmpty(refSplit(stream))
		check := func(cuts []int, endMode int, label string) {
			segs := cutAt(stream, cuts)
			got, _ := runPlain(stream, segs, endMode)
			if !sameLines(nonEmpty(got), want) {
				t.Fatalf("plain handler, %s, endMode=%d, cuts=%v: dispatched %s, want %s (stream %d bytes)", label, endMode, cuts, short(got), short(want), len(stream))
			}
			nt := nl >= 2 && cutInsideLine(stream, cuts)
			rec.Case(fmt.Sprintf("%x|%v|%d", hashBytes(stream), cuts, endMode), nt, "seg="+label, fmt.Sprintf("endMode=%d", endMode))
		}
		endMode := rapid.IntRange(0, 3).Draw(t, "endMode")
		check(genCuts(t, len(stream)), endMode, "random")
		if len(stream) <= 64 {
			// exhaustive: every single cut position, and all one-byte reads
			for c := 1; c < len(stream); c++ {
				check([]int{c}, endMode, "every-cut")
			}
		}
	})
}

func hashBytes(b []byte) uint64 {
	var h uint64 = 1469598103934665603
	for _, c := range b {
		h ^= uint64(c)
		h *= 1099511628211
	}
	return h
}

// ---- listener paths --------------------------------------------------------------------

func TestPropListenerConn(t *testing.T) {
	rec := ev.Get("listener_tcp_conn")
	rapid.Check(t, func(t *rapid.T) {
		stream, nl := genStream(t, 10, 65536)
		want := nonEmpty(refSplit(stream))
		cuts := genCuts(t, len(stream))
		if len(cuts) > 300 {
			cuts = cuts[:300]
		}
		segs := cutAt(stream, cuts)
		d := &capDisp{}
		l := input.NewListener("127.0.0.1:0", 5*time.Second, input.NewPlain(d))
		client, server := net.Pipe()
		done := make(chan struct{})
		go func() {
			l.HandleConn(l, input.NewTimeoutConn(server, 5*time.Second))
			close(done)
		}()
		for _, s := range segs {
			if len(s) == 0 {
				continue
			}
			if _, err := client.Write(s); err != nil {
				t.Fatalf("HARNESS-ERROR: pipe write: %v", err)
			}
		}
		client.Close()
		select {
		case <-done:
		case <-time.After(20 * time.Second):
			t.Fatalf("connection handler did not return after the peer closed")
		}
		server.Close()
		got := d.get()
		if !sameLines(nonEmpty(got), want) {
			t.Fatalf("tcp connection handler, cuts=%v: dispatched %s, want %s", cuts, short(got), short(want))
		}
		rec.Case(fmt.Sprintf("%x|%v", hashBytes(stream), cuts), nl >= 2 && cutInsideLine(stream, cuts))
	})
}

func TestPropListenerDatagram(t *testing.T) {
	rec := ev.Get("listener_udp_datagram")
	rapid.Check(t, func(t *rapid.T) {
		d := &capDisp{}
		l := input.NewListener("127.0.0.1:0", time.Second, input.NewPlain(d))
		n := rapid.IntRange(1, 4).Draw(t, "ndatagrams")
		var want []string
		total := 0
		for i := 0; i < n; i++ {
			dg, nl := genStream(t, 8, 8000)
			if len(dg) > 65507 {
				dg = dg[:65507]
			}
			total += nl
			want = append(want, nonEmpty(refSplit(dg))...)
			l.HandleData(l, dg, &net.UDPAddr{IP: net.IPv4(127, 0, 0, 1), Port: 1})
		}
		got := d.get()
		if !sameLines(nonEmpty(got), want) {
			t.Fatalf("udp datagram handler: dispatched %s, want %s", short(got), short(want))
		}
		rec.Case(fmt.Sprintf("%v", want), n >= 2 && total >= 3)
	})
}

// ---- AMQP --------------------------------------------------------------------------------

type nopCloser struct{}

func (nopCloser) Close() error { return nil }

func TestPropAMQPBodies(t *testing.T) {
	rec := ev.Get("amqp_bodies")
	rapid.Check(t, func(t *rapid.T) {
		d := &capDisp{}
		delivery := make(chan amqp.Delivery)
		a := input.NewAMQP(cfg.NewConfig(), d, func(a *input.Amqp) error {
			a.VerifSetDelivery(delivery, nopCloser{}, nopCloser{})
			return nil
		})
		a.Start()
		nb := rapid.IntRange(1, 4).Draw(t, "nbodies")
		var want []string
		total := 0
		for i := 0; i < nb; i++ {
			body, nl := genStream(t, 10, 4096)
			total += nl
			want = append(want, nonEmpty(refSplit(body))...)
			delivery <- amqp.Delivery{Body: body}
		}
		// a second hand-over is only accepted after the previous body was fully processed
		delivery <- amqp.Delivery{Body: nil}
		a.Stop()
		got := d.get()
		if !sameLines(nonEmpty(got), want) {
			t.Fatalf("amqp consumer: dispatched %s, want %s", short(got), short(want))
		}
		rec.Case(fmt.Sprintf("%v", want), total >= 2)
	})
}

// ---- native fuzz target (thorough tier): bytes -> stream + cut seed ---------------------

func FuzzPlainChunking(f *testing.F) {
	f.Add([]byte("a 1 2\nb 2 3\r\nc 3 4"), uint16(3), uint8(0))
	f.Add([]byte("\n\n\r\nfoo.bar 1 1500000000\n"), uint16(1), uint8(1))
	f.Add(bytes.Repeat([]byte("x"), 5000), uint16(4096), uint8(2))
	f.Fuzz(func(t *testing.T, stream []byte, seg uint16, endMode uint8) {
		// domain: no line longer than the 64 KiB limit
		for _, l := range refSplit(stream) {
			if len(l)+2 > 65536 {
				t.Skip()
			}
		}
		want := nonEmpty(refSplit(stream))
		var cuts []int
		if seg > 0 {
			for i := int(seg); i < len(stream); i += int(seg) {
				cuts = append(cuts, i)
			}
		}
		got, _ := runPlain(stream, cutAt(stream, cuts), int(endMode%4))
		if !sameLines(nonEmpty(got), want) {
			t.Fatalf("plain handler seg=%d endMode=%d: dispatched %s want %s", seg, endMode%4, short(got), short(want))
		}
	})
}
