package c12

import (
	"fmt"
	"io"
	"strings"
	"sync"
	"testing"
	"time"

	"github.com/grafana/carbon-relay-ng/input"
	"pgregory.net/rapid"

	"verifharness/internal/ev"
)

// gated is a reader that hands out its next chunk only when the scheduler grants it, and tells the scheduler when the
// handler comes back for more (i.e. has fully processed what it got).
type gated struct {
	chunks [][]byte
	i      int
	grant  chan struct{}
	idle   chan struct{}
	first  bool
}

func (g *gated) Read(p []byte) (int, error) {
	if g.first {
		g.first = false
	} else {
		g.idle <- struct{}{} // back for more: the previous chunk has been consumed
	}
	<-g.grant
	if g.i >= len(g.chunks) {
		return 0, io.EOF
	}
	c := g.chunks[g.i]
	n := copy(p, c)
	if n < len(c) {
		g.chunks[g.i] = c[n:] // (the handler's buffer was smaller than the chunk: the rest comes with the next grant)
	} else {
		g.i++
	}
	return n, nil
}

// TestPropInterleavedStreams: the listener hands every TCP connection and every datagram to ONE handler object, each in
// its own goroutine.  2-3 streams, each cut into chunks, are fed to one input.Plain concurrently; the harness owns the
// schedule (which stream gets its next chunk, one at a time, each chunk fully consumed before the next grant).  Oracle:
// the lines dispatched for every stream are exactly the reference split of that stream, in order (streams carry their
// own name prefix); how the streams interleave is free.
func TestPropInterleavedStreams(t *testing.T) {
	rec := ev.Get("interleaved_streams")
	rapid.Check(t, func(t *rapid.T) {
		d := &capDisp{}
		hnd := input.NewPlain(d)
		ns := rapid.IntRange(2, 3).Draw(t, "nstreams")
		var gs []*gated
		var want [][]string
		splitAcross := false
		for s := 0; s < ns; s++ {
			stream, _ := genStream(t, 6, 300)
			// make the lines of this stream recognisable
			stream = []byte(strings.ReplaceAll(string(stream), "m", fmt.Sprintf("s%dm", s)))
			var w []string
			for _, l := range nonEmpty(refSplit(stream)) {
				w = append(w, l)
			}
			want = append(want, w)
			cuts := genCuts(t, len(stream))
			chunks := cutAt(stream, cuts)
			if len(chunks) > 1 {
				splitAcross = true
			}
			gs = append(gs, &gated{chunks: chunks, grant: make(chan struct{}), idle: make(chan struct{}, 1), first: true})
		}
		var wg sync.WaitGroup
		finished := make([]chan struct{}, ns)
		for s := range gs {
			finished[s] = make(chan struct{})
			wg.Add(1)
			go func(s int) {
				defer wg.Done()
				defer close(finished[s])
				hnd.Handle(gs[s])
			}(s)
		}
		// schedule: pick a live stream, grant one read, wait until it is consumed (the handler reads again) or the stream ends
		live := make([]bool, ns)
		for s := range live {
			live[s] = true
		}
		var sched []int
		nlive := ns
		for nlive > 0 {
			var cands []int
			for s, l := range live {
				if l {
					cands = append(cands, s)
				}
			}
			s := cands[rapid.IntRange(0, len(cands)-1).Draw(t, "next")]
			sched = append(sched, s)
			gs[s].grant <- struct{}{}
			select {
			case <-gs[s].idle:
			case <-finished[s]:
				live[s] = false
				nlive--
			case <-time.After(20 * time.Second):
				t.Fatalf("stream %d: the handler neither came back for more nor returned within 20s", s)
			}
		}
		wg.Wait()
		got := make([][]string, ns)
		for _, l := range nonEmpty(d.get()) {
			s := -1
			for k := 0; k < ns; k++ {
				if strings.Contains(l, fmt.Sprintf("s%dm", k)) {
					if s >= 0 {
						s = -2 // bytes of two streams in one line
						break
					}
					s = k
				}
			}
			if s == -2 {
				t.Fatalf("a dispatched line mixes bytes of two streams: %q (schedule %v)", l, sched)
			}
			if s < 0 {
				// lines without a marker (e.g. "a\rb 1 2" or very short ones) cannot be attributed: compare them as a multiset below
				continue
			}
			got[s] = append(got[s], l)
		}
		for s := 0; s < ns; s++ {
			var w []string
			for _, l := range want[s] {
				if strings.Contains(l, fmt.Sprintf("s%dm", s)) {
					w = append(w, l)
				}
			}
			if !sameLines(got[s], w) {
				t.Fatalf("stream %d fed chunk-wise while other streams were handled by the same handler: dispatched %s, want %s (schedule %v)", s, short(got[s]), short(w), sched)
			}
		}
		total := 0
		for _, w := range want {
			total += len(w)
		}
		if n := len(nonEmpty(d.get())); n != total {
			t.Fatalf("%d lines dispatched for %d lines sent over %d interleaved streams (schedule %v)", n, total, ns, sched)
		}
		switches := 0
		for i := 1; i < len(sched); i++ {
			if sched[i] != sched[i-1] {
				switches++
			}
		}
		rec.Case(fmt.Sprintf("%v %v", want, sched), splitAcross && switches >= 2, fmt.Sprintf("streams=%d", ns))
	})
}
