package c12

import (
	"fmt"
	"net"
	"strings"
	"testing"
	"time"

	"github.com/grafana/carbon-relay-ng/input"
	"pgregory.net/rapid"
	"verifharness/internal/ep"
	"verifharness/internal/ev"
)

// slow_sender: "however the network segments it" includes WHEN the segments arrive.  A started TCP listener with a read
// timeout T; a client sends a stream in a few pieces with pauses of 0 .. 0.7 T between them, cuts inside lines.  No pause
// reaches T, so the connection is alive the whole time and the relay must process exactly the lines of the stream.
// The pauses are real time: a case in which the harness itself was delayed so that a gap came close to T (> 0.85 T,
// measured) is discarded as inconclusive, never reported.
func TestPropSlowSender(t *testing.T) {
	rec := ev.Get("slow_sender")
	rapid.Check(t, func(t *rapid.T) {
		T := time.Duration(rapid.SampledFrom([]int{600, 800, 1000}).Draw(t, "readTimeoutMs")) * time.Millisecond
		var l *input.Listener
		d := &capDisp{}
		var addr string
		for try := 0; ; try++ {
			tl, err := net.Listen("tcp", ep.LoopIP()+":0")
			if err != nil {
				t.Fatalf("HARNESS-ERROR: %v", err)
			}
			addr = tl.Addr().String()
			tl.Close()
			l = input.NewListener(addr, T, input.NewPlain(d))
			if err := l.Start(); err == nil {
				break
			}
			if try > 20 {
				t.Fatalf("HARNESS-ERROR: listener does not start")
			}
		}
		defer l.Stop()
		c, err := net.Dial("tcp", addr)
		if err != nil {
			t.Fatalf("HARNESS-ERROR: %v", err)
		}
		defer c.Close()
		nl := rapid.IntRange(2, 6).Draw(t, "nlines")
		var sb strings.Builder
		for i := 0; i < nl; i++ {
			fmt.Fprintf(&sb, "c12.slow.srv%d.cpu.%s %d 15000000%02d\n", i, rapid.SampledFrom([]string{"user", "system", "idle.long.name"}).Draw(t, "leaf"), i*7, i)
		}
		stream := sb.String()
		npieces := rapid.IntRange(3, 5).Draw(t, "npieces")
		cutSet := map[int]bool{}
		for len(cutSet) < npieces-1 {
			cutSet[rapid.IntRange(1, len(stream)-1).Draw(t, "cut")] = true
		}
		var cuts []int
		for i := 1; i < len(stream); i++ {
			if cutSet[i] {
				cuts = append(cuts, i)
			}
		}
		var pauses []time.Duration
		midLine := false
		prev := 0
		var lastEnd time.Time
		maxGap := time.Duration(0)
		for i := 0; i <= len(cuts); i++ {
			end := len(stream)
			if i < len(cuts) {
				end = cuts[i]
			}
			if i > 0 {
				p := time.Duration(rapid.SampledFrom([]int{0, 30, 45, 70}).Draw(t, "pausePct")) * T / 100
				pauses = append(pauses, p)
				time.Sleep(p)
				if g := time.Since(lastEnd); g > maxGap {
					maxGap = g
				}
			}
			if _, err := c.Write([]byte(stream[prev:end])); err != nil {
				t.Fatalf("the relay closed the connection while the sender was within the read timeout %s (pauses so far %v, longest real gap %s): write: %v", T, pauses, maxGap, err)
			}
			lastEnd = time.Now()
			if end < len(stream) && stream[end-1] != '\n' {
				midLine = true
			}
			prev = end
		}
		if maxGap > T*85/100 {
			rec.Class("inconclusive:harness-delayed", 1)
			t.Skip("a gap came close to the read timeout because the harness was delayed")
		}
		want := nonEmpty(refSplit([]byte(stream)))
		var got []string
		for dl := time.Now().Add(T / 2); ; {
			got = nonEmpty(d.get())
			if len(got) >= len(want) || time.Now().After(dl) {
				break
			}
			time.Sleep(time.Millisecond)
		}
		if !sameLines(got, want) {
			t.Fatalf("read timeout %s, pieces cut at %v with pauses %v (longest real gap %s): the relay processed %s, the stream is %s", T, cuts, pauses, maxGap, short(got), short(want))
		}
		rec.Case(fmt.Sprintf("T=%s cuts=%v pauses=%v n=%d", T, cuts, pauses, nl), midLine && maxGap > T/3, fmt.Sprintf("readTimeout=%s", T), fmt.Sprintf("pause>=T/3=%v", maxGap > T/3))
	})
}
