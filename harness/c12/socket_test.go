package c12

import (
	"fmt"
	"net"
	"strings"
	"testing"
	"time"

	"github.com/grafana/carbon-relay-ng/input"
	"pgregory.net/rapid"
	"verifharness/internal/ep"
	"verifharness/internal/ev"
)

// real_udp_socket: the datagram path through the REAL socket of a started Listener, over IPv4 and over IPv6 loopback.
// Every datagram the kernel accepts (up to 65507 bytes over IPv4, 65527 over IPv6) must come out as exactly the
// lines it contains.  Datagrams are followed by a small marker datagram; one socket pair on loopback keeps order
// and the listener consumes sequentially, so once the marker is out the datagram before it has been handled.
// A datagram that produced NOTHING is treated as lost by the kernel and sent again (never a violation).

type udpTarget struct {
	l    *input.Listener
	d    *capDisp
	conn *net.UDPConn
	max  int
}

func startUDP(t *testing.T, host string, max int) *udpTarget {
	for try := 0; try < 20; try++ {
		// a port that is free for TCP and UDP right now
		tl, err := net.Listen("tcp", net.JoinHostPort(host, "0"))
		if err != nil {
			return nil
		}
		port := tl.Addr().(*net.TCPAddr).Port
		tl.Close()
		addr := net.JoinHostPort(host, fmt.Sprint(port))
		d := &capDisp{}
		l := input.NewListener(addr, 5*time.Second, input.NewPlain(d))
		if err := l.Start(); err != nil {
			continue
		}
		ua, _ := net.ResolveUDPAddr("udp", addr)
		c, err := net.DialUDP("udp", nil, ua)
		if err != nil {
			l.Stop()
			continue
		}
		c.SetWriteBuffer(1 << 20)
		return &udpTarget{l: l, d: d, conn: c, max: max}
	}
	return nil
}

func (u *udpTarget) reset() {
	u.d.mu.Lock()
	u.d.lines = nil
	u.d.mu.Unlock()
}

// roundTrip sends dg followed by a marker and returns what was dispatched before the marker ("" , false = marker never seen)
func (u *udpTarget) roundTrip(dg []byte, marker string) ([]string, bool) {
	u.reset()
	if _, err := u.conn.Write(dg); err != nil {
		return nil, false
	}
	deadline := time.Now().Add(4 * time.Second)
	next := time.Time{}
	for time.Now().Before(deadline) {
		if time.Now().After(next) {
			u.conn.Write([]byte(marker + "\n"))
			next = time.Now().Add(500 * time.Millisecond)
		}
		got := u.d.get()
		for i, l := range got {
			if l == marker {
				var out []string
				for _, x := range got[:i] {
					if !strings.HasPrefix(x, "marker.") { // a late duplicate of an earlier case's marker
						out = append(out, x)
					}
				}
				return out, true
			}
		}
		time.Sleep(time.Millisecond)
	}
	return nil, false
}

func TestPropRealUDPSocket(t *testing.T) {
	rec := ev.Get("real_udp_socket")
	v4 := startUDP(t, ep.LoopIP(), 65507)
	v6 := startUDP(t, "::1", 65527)
	if v4 == nil {
		t.Fatalf("HARNESS-ERROR: no UDP listener on %s", ep.LoopIP())
	}
	defer v4.l.Stop()
	targets := []*udpTarget{v4}
	if v6 != nil {
		defer v6.l.Stop()
		targets = append(targets, v6, v6)
	}
	seq := 0
	rapid.Check(t, func(t *rapid.T) {
		u := rapid.SampledFrom(targets).Draw(t, "family")
		var size int
		switch rapid.IntRange(0, 3).Draw(t, "sizeclass") {
		case 0:
			size = rapid.IntRange(1, 2000).Draw(t, "size")
		case 1:
			size = rapid.IntRange(2000, 65000).Draw(t, "size")
		default:
			size = u.max - rapid.IntRange(0, 40).Draw(t, "below")
		}
		nl := rapid.IntRange(1, 30).Draw(t, "nlines")
		seq++
		var sb strings.Builder
		for i := 0; sb.Len() < size; i++ {
			per := size / nl
			name := fmt.Sprintf("u%d.l%d.", seq, i)
			pad := per - len(name) - 16
			if pad < 1 {
				pad = 1
			}
			sb.WriteString(name + strings.Repeat("x", pad) + fmt.Sprintf(" %d 1500000000\n", i))
		}
		dg := []byte(sb.String())
		if len(dg) > size {
			dg = dg[:size]
		}
		if rapid.Bool().Draw(t, "terminated") && len(dg) > 1 && dg[len(dg)-1] != '\n' {
			dg[len(dg)-1] = '\n'
		}
		want := nonEmpty(refSplit(dg))
		marker := fmt.Sprintf("marker.%d 1 1500000000", seq)
		var got []string
		delivered := false
		for attempt := 0; attempt < 3 && !delivered; attempt++ {
			g, ok := u.roundTrip(dg, marker)
			if !ok {
				t.Fatalf("HARNESS-ERROR: marker datagram never came out of the listener")
			}
			if len(g) > 0 {
				got, delivered = g, true
			}
		}
		if !delivered {
			if len(want) == 0 {
				rec.Case(fmt.Sprintf("%d|%d|empty", u.max, size), false)
				return
			}
			t.Fatalf("HARNESS-ERROR: a %d-byte datagram produced nothing in 3 attempts (kernel loss?)", len(dg))
		}
		// markers of earlier attempts may trail; only lines before the first marker were returned
		if !sameLines(nonEmpty(got), want) {
			t.Fatalf("real UDP socket (max payload %d), datagram of %d bytes: dispatched %d lines %s, want %d lines %s", u.max, len(dg), len(got), short(tail(got)), len(want), short(tail(want)))
		}
		rec.Case(fmt.Sprintf("%d|%d|%d", u.max, size, nl), size > 2000)
	})
}

func tail(ls []string) []string {
	if len(ls) > 3 {
		return ls[len(ls)-3:]
	}
	return ls
}
