// C13 — pickle input is equivalent to the plain-text input for the same datapoints.
package c13

import (
	"bytes"
	"encoding/binary"
	"fmt"
	"io"
	"math"
	"os"
	"strconv"
	"strings"
	"sync"
	"testing"

	"github.com/grafana/carbon-relay-ng/input"
	"pgregory.net/rapid"

	"verifharness/internal/ev"
	"verifharness/internal/h"
	"verifharness/internal/pyh"
)

type pyT struct {
	name string
	srv  *pyh.Server
	py2  bool
}

var pys []pyT

func TestMain(m *testing.M) {
	h.Init()
	add := func(name, path string, py2 bool) {
		if path == "" {
			return
		}
		if _, err := os.Stat(path); err != nil {
			return
		}
		s, err := pyh.Start(path)
		if err != nil {
			return
		}
		pys = append(pys, pyT{name + "-" + s.Version, s, py2})
	}
	add("cpython", pyh.Python3(), false)
	add("cpython", pyh.Python2(), true)
	add("cpython", "/root/.pyenv/versions/3.6.15/bin/python3.6", false)
	add("cpython", "/root/.pyenv/versions/3.13.0/bin/python3.13", false)
	if len(pys) == 0 || pys[0].py2 {
		fmt.Println("HARNESS-ERROR: no python3 interpreter for the pickle helper")
		os.Exit(2)
	}
	names := []string{}
	for _, p := range pys {
		names = append(names, p.name)
	}
	ev.Get("pickle_vs_plain").Note("interpreters", strings.Join(names, ","))
	code := m.Run()
	for _, p := range pys {
		p.srv.Close()
	}
	ev.Flush()
	os.Exit(code)
}

type capDisp struct {
	mu      sync.Mutex
	events  []string // "D:<line>" or "I" in order
}

func (c *capDisp) Dispatch(buf []byte) {
	c.mu.Lock()
	c.events = append(c.events, "D:"+string(buf))
	c.mu.Unlock()
}
func (c *capDisp) IncNumInvalid() { c.mu.Lock(); c.events = append(c.events, "I"); c.mu.Unlock() }

// ---- datapoint generator ------------------------------------------------------------

type scalar struct {
	spec   pyh.Spec
	text   string  // expected verbatim text for int / str
	isF    bool    // float: compare numerically / six decimals
	f      float64
	kind   string
	valid  bool // acceptable as value/timestamp at all
}

var bigInts = []string{"0", "1", "5", "127", "128", "255", "256", "65535", "65536", "2147483647", "2147483648", "4294967295", "4294967296",
	"1500000000", "9223372036854775807", "9223372036854775808", "18446744073709551616", "-1", "-129", "-32769", "-2147483649", "-9223372036854775809", "123456789012345678901234567890"}

func genScalar(t *rapid.T, label string, py2 bool) scalar {
	switch k := rapid.IntRange(0, 11).Draw(t, label+".kind"); {
	case k <= 4:
		d := rapid.SampledFrom(bigInts).Draw(t, label+".int")
		if rapid.IntRange(0, 3).Draw(t, label+".rnd") == 0 {
			d = strconv.FormatInt(rapid.Int64Range(-5000000000, 5000000000).Draw(t, label+".i64"), 10)
		}
		sp := pyh.Int(d)
		kind := "int"
		if py2 && rapid.Bool().Draw(t, label+".long") {
			sp = pyh.Long(d) // python 2 `long` even when small
			kind = "long"
		}
		return scalar{spec: sp, text: d, kind: kind, valid: true}
	case k <= 7:
		f := rapid.SampledFrom([]float64{0, 1, 1.5, -2.25, 1500000000, 1e6, 0.1, 123456.789, 1e-7, 2.5e10, 3}).Draw(t, label+".float")
		if rapid.IntRange(0, 2).Draw(t, label+".rndf") == 0 {
			f = float64(rapid.Int64Range(-1e12, 1e12).Draw(t, label+".fi")) / 1024
		}
		return scalar{spec: pyh.Float(strconv.FormatFloat(f, 'g', -1, 64)), isF: true, f: f, kind: "float", valid: true}
	case k <= 9:
		s := rapid.SampledFrom([]string{"1", "12", "1.5", "1500000000", "abc", "", "1e3", "0x1p-2", " 7"}).Draw(t, label+".str")
		sp := pyh.Str(s)
		if rapid.Bool().Draw(t, label+".uni") {
			sp = pyh.Uni(s)
		}
		return scalar{spec: sp, text: s, kind: "str", valid: true}
	case k == 10:
		return scalar{spec: pyh.None(), kind: "none"}
	default:
		if rapid.Bool().Draw(t, label+".d") {
			return scalar{spec: pyh.Dict(), kind: "dict"}
		}
		return scalar{spec: pyh.List(pyh.Int("1")), kind: "list"}
	}
}

type item struct {
	spec    pyh.Spec
	valid   bool
	nameUni bool // the name is a python text object (py3 str / py2 unicode), not a py2 byte string
	py2     bool
	name    string
	ts, val scalar
	desc    string
	// where the name object sits in spec (first element of the outer sequence), -1 if the item has no name object
	nameIdx  int
	nameSpec pyh.Spec
}

func (it *item) setName(s pyh.Spec) {
	v := append([]pyh.Spec(nil), it.spec.V.([]pyh.Spec)...)
	v[it.nameIdx] = s
	it.spec.V = v
}

var namePool = []string{"a.b", "foo.bar", "srv.cpu;dc=1;host=x", "unit=B.mtype=gauge.x=y", "with space", "café.ü", "日本", "x", "stats.timers.a_b-c.upper_90"}

func seq(t *rapid.T, label string, elems ...pyh.Spec) pyh.Spec {
	if rapid.Bool().Draw(t, label+".aslist") {
		return pyh.List(elems...)
	}
	return pyh.Tuple(elems...)
}

func genItem(t *rapid.T, py2 bool) item {
	name := rapid.SampledFrom(namePool).Draw(t, "name")
	nameSpec := pyh.Uni(name)
	nameUni := true
	if rapid.Bool().Draw(t, "name.str") {
		nameSpec = pyh.Str(name) // py3 str / py2 byte string
		nameUni = !py2
	}
	ts := genScalar(t, "ts", py2)
	val := genScalar(t, "val", py2)
	it := item{name: name, nameUni: nameUni, py2: py2, ts: ts, val: val, nameIdx: 0, nameSpec: nameSpec}
	switch k := rapid.IntRange(0, 19).Draw(t, "itemshape"); {
	case k <= 13:
		it.spec = seq(t, "outer", nameSpec, seq(t, "inner", ts.spec, val.spec))
		it.valid = ts.valid && val.valid
		it.desc = fmt.Sprintf("(%q,(%s,%s))", name, ts.kind, val.kind)
	case k == 14:
		it.spec = seq(t, "outer", nameSpec)
		it.desc = "arity1"
	case k == 15:
		it.spec = seq(t, "outer", nameSpec, seq(t, "inner", ts.spec, val.spec), pyh.Int("3"))
		it.desc = "arity3"
	case k == 16:
		it.spec = seq(t, "outer", rapid.SampledFrom([]pyh.Spec{pyh.Int("7"), pyh.None(), pyh.Float("1.5")}).Draw(t, "badname"), seq(t, "inner", ts.spec, val.spec))
		it.desc = "name-not-string"
		it.nameIdx = -1
	case k == 17:
		it.spec = seq(t, "outer", nameSpec, rapid.SampledFrom([]pyh.Spec{pyh.Dict(), pyh.None(), pyh.Int("5"), pyh.Str("x")}).Draw(t, "baddata"))
		it.desc = "data-not-sequence"
	case k == 18:
		it.spec = seq(t, "outer", nameSpec, seq(t, "inner", ts.spec))
		it.desc = "data-arity1"
	default:
		it.spec = rapid.SampledFrom([]pyh.Spec{pyh.None(), pyh.Int("1"), pyh.Str("notanitem"), pyh.Dict()}).Draw(t, "notseq")
		it.desc = "item-not-sequence"
		it.nameIdx = -1
	}
	return it
}

// expected events for one item (the plain-text equivalent), with float timestamps left symbolic
type expEvent struct {
	invalid bool
	name    string
	val     string
	ts      string
	tsFloat *float64
	// what the known og-rek BININT defect would produce instead (empty: not applicable)
	defVal, defTs string
	defName       string
	defNameSig    string
}

// strEscapeDefect: python 2 writes a byte string in protocol 0 with the STRING
// opcode as its repr ('caf\xc3\xa9'); the pinned og-rek's decodeStringEscape is
// a TODO stub, so the escapes arrive literally (known finding
// ogrek-string-escape-proto0).  Returns "" when the name has nothing to escape.
func strEscapeDefect(name string, proto int, py2ByteString bool) string {
	if proto != 0 || !py2ByteString {
		return ""
	}
	var sb strings.Builder
	hit := false
	for i := 0; i < len(name); i++ {
		c := name[i]
		switch {
		case c == '\\':
			sb.WriteString("\\\\")
			hit = true
		case c == '\'':
			sb.WriteString("\\'")
			hit = true
		case c < 0x20 || c >= 0x7f:
			fmt.Fprintf(&sb, "\\x%02x", c)
			hit = true
		default:
			sb.WriteByte(c)
		}
	}
	if !hit {
		return ""
	}
	return sb.String()
}

// latin1Defect: protocol 0 writes text with the UNICODE opcode in
// raw-unicode-escape (code points U+0080..U+00FF as single latin-1 bytes);
// the pinned og-rek runs strconv.UnquoteChar over those bytes, which turns
// every byte that is not valid UTF-8 into U+FFFD (known finding
// ogrek-unicode-latin1-proto0).  Returns "" when the name is not affected.
func latin1Defect(name string, proto int, uni bool) string {
	if proto != 0 || !uni {
		return ""
	}
	var raw []byte
	hit := false
	for _, r := range name {
		switch {
		case r < 0x80:
			raw = append(raw, byte(r))
		case r <= 0xff:
			raw = append(raw, byte(r))
			hit = true
		case r <= 0xffff:
			raw = append(raw, []byte(fmt.Sprintf("\\u%04x", r))...)
		default:
			raw = append(raw, []byte(fmt.Sprintf("\\U%08x", r))...)
		}
	}
	if !hit {
		return ""
	}
	var out []rune
	sl := string(raw)
	for len(sl) > 0 {
		r, _, rest, err := strconv.UnquoteChar(sl, '\'')
		if err != nil {
			return ""
		}
		out = append(out, r)
		sl = rest
	}
	return string(out)
}

// binintDefect: the pinned og-rek decodes the 4-byte BININT opcode as unsigned,
// so a negative python int in [-2^31,-1] pickled with protocol >= 1 arrives as
// value+2^32 (known finding ogrek-binint-negative, see known_findings.txt).
func binintDefect(sc scalar, proto int) string {
	if sc.kind != "int" || proto < 1 {
		return ""
	}
	v, err := strconv.ParseInt(sc.text, 10, 64)
	if err != nil || v >= 0 || v < -(1<<31) {
		return ""
	}
	return strconv.FormatInt(v+(1<<32), 10)
}

func expect(it item, proto int) expEvent {
	if !it.valid {
		return expEvent{invalid: true}
	}
	e := expEvent{name: it.name, defVal: binintDefect(it.val, proto), defTs: binintDefect(it.ts, proto), defName: latin1Defect(it.name, proto, it.nameUni), defNameSig: "ogrek-unicode-latin1-proto0"}
	if d := strEscapeDefect(it.name, proto, it.py2 && !it.nameUni); d != "" {
		e.defName, e.defNameSig = d, "ogrek-string-escape-proto0"
	}
	if it.val.isF {
		e.val = strconv.FormatFloat(it.val.f, 'f', 6, 64)
	} else {
		e.val = it.val.text
	}
	if it.ts.isF {
		f := it.ts.f
		e.tsFloat = &f
	} else {
		e.ts = it.ts.text
	}
	return e
}

func frame(payload []byte) []byte {
	b := make([]byte, 4+len(payload))
	binary.BigEndian.PutUint32(b, uint32(len(payload)))
	copy(b[4:], payload)
	return b
}

type chunked struct {
	data []byte
	cuts []int
	pos  int
}

func (c *chunked) Read(p []byte) (int, error) {
	if c.pos >= len(c.data) {
		return 0, io.EOF
	}
	end := len(c.data)
	for _, k := range c.cuts {
		if k > c.pos {
			end = k
			break
		}
	}
	if end > len(c.data) {
		end = len(c.data)
	}
	n := copy(p, c.data[c.pos:end])
	c.pos += n
	return n, nil
}

func runPickle(stream []byte, cuts []int) (ev []string, err error, panicked interface{}) {
	d := &capDisp{}
	func() {
		defer func() { panicked = recover() }()
		err = input.NewPickle(d).Handle(&chunked{data: stream, cuts: cuts})
	}()
	return d.events, err, panicked
}

func TestPropPickleVsPlain(t *testing.T) {
	rec := ev.Get("pickle_vs_plain")
	rapid.Check(t, func(t *rapid.T) {
		py := pys[rapid.IntRange(0, len(pys)-1).Draw(t, "interpreter")]
		impl := "pickle"
		if py.py2 && rapid.Bool().Draw(t, "cPickle") {
			impl = "cPickle"
		}
		maxProto := 4
		if py.py2 {
			maxProto = 2
		}
		nframes := rapid.IntRange(1, 4).Draw(t, "nframes")
		var stream []byte
		var exp []expEvent
		var descs []string
		encodings := map[string]bool{}
		nitems := 0
		shared := 0
		sharedLater := false
		for f := 0; f < nframes; f++ {
			proto := rapid.IntRange(0, maxProto).Draw(t, "proto")
			n := rapid.IntRange(0, 8).Draw(t, "nitems")
			if rapid.IntRange(0, 11).Draw(t, "bigframe") == 0 {
				n = rapid.IntRange(120, 260).Draw(t, "nitemsBig") // payload well beyond the 4096-byte read chunk
			}
			items := make([]pyh.Spec, n)
			fd := []string{}
			// Real clients build their lists from a pool of name objects: with `share` the second and later uses of a
			// name (same text and same Python type) inside a frame are references to the first object, so that the
			// pickle carries memo opcodes; the memo is per pickle, so references in a later frame must resolve within it.
			share := rapid.Bool().Draw(t, "shareNames")
			nameID := map[string]int{}
			for i := range items {
				it := genItem(t, py.py2)
				if share && it.nameIdx >= 0 {
					key := fmt.Sprintf("%v|%s", it.nameUni, it.name)
					if k, ok := nameID[key]; ok {
						it.setName(pyh.Ref(k))
						shared++
						if f > 0 {
							sharedLater = true
						}
					} else {
						k = len(nameID)
						nameID[key] = k
						it.setName(it.nameSpec.WithID(k))
					}
				}
				items[i] = it.spec
				exp = append(exp, expect(it, proto))
				fd = append(fd, it.desc)
				if it.valid {
					encodings[it.ts.kind] = true
					encodings[it.val.kind] = true
				}
				nitems++
			}
			payload, err := py.srv.Dumps(pyh.List(items...), proto, impl)
			if err != nil {
				t.Fatalf("HARNESS-ERROR: %v", err)
			}
			stream = append(stream, frame(payload)...)
			descs = append(descs, fmt.Sprintf("p%d[%s]", proto, strings.Join(fd, " ")))
		}
		// segmentation
		var cuts []int
		switch rapid.IntRange(0, 3).Draw(t, "cutstyle") {
		case 1:
			for i := 1; i < len(stream); i++ {
				cuts = append(cuts, i)
			}
		case 2:
			k := rapid.IntRange(1, 6).Draw(t, "ncuts")
			for i := 0; i < k; i++ {
				cuts = append(cuts, rapid.IntRange(1, len(stream)).Draw(t, "cut"))
			}
			for i := 1; i < len(cuts); i++ {
				for j := i; j > 0 && cuts[j] < cuts[j-1]; j-- {
					cuts[j], cuts[j-1] = cuts[j-1], cuts[j]
				}
			}
		case 3:
			sz := rapid.SampledFrom([]int{2, 3, 5, 4096}).Draw(t, "seg")
			for i := sz; i < len(stream); i += sz {
				cuts = append(cuts, i)
			}
		}
		got, herr, pn := runPickle(stream, cuts)
		ctx := fmt.Sprintf("%s/%s frames=%v cuts=%d", py.name, impl, descs, len(cuts))
		if pn != nil {
			t.Fatalf("pickle handler panicked: %v (%s)", pn, ctx)
		}
		if herr != nil {
			t.Fatalf("pickle handler returned an error for well-formed frames: %v (%s)", herr, ctx)
		}
		// the equivalent plain-text input, through the plain handler
		var text bytes.Buffer
		for _, e := range exp {
			if e.invalid || e.tsFloat != nil {
				continue
			}
			text.WriteString(e.name + " " + e.val + " " + e.ts + "\n")
		}
		pd := &capDisp{}
		if err := input.NewPlain(pd).Handle(bytes.NewReader(text.Bytes())); err != nil {
			t.Fatalf("HARNESS-ERROR: plain handler: %v", err)
		}
		pi := 0
		knownHit := false
		if len(got) != len(exp) {
			t.Fatalf("%d datapoints/invalid items expected, pickle handler produced %d events: %q (%s)", len(exp), len(got), got, ctx)
		}
		for i, e := range exp {
			g := got[i]
			if e.invalid {
				if g != "I" {
					t.Fatalf("item %d is structurally invalid and must be counted invalid once; got %q (%s)", i, g, ctx)
				}
				continue
			}
			var want string
			if e.tsFloat == nil {
				want = pd.events[pi] // what the plain-text path dispatches for the equivalent line
				pi++
			}
			// candidates: the correct rendering first, then the renderings the two
			// listed og-rek defects would produce (only if listed as known findings)
			type cand struct{ name, val, ts, sig string }
			cands := []cand{{e.name, e.val, e.ts, ""}}
			add := func(f func(c cand) cand, sig string) {
				if _, ok := ev.IsKnown("C13", sig); !ok {
					return
				}
				for _, c := range append([]cand(nil), cands...) {
					n := f(c)
					n.sig = strings.TrimPrefix(c.sig+","+sig, ",")
					cands = append(cands, n)
				}
			}
			if e.defName != "" {
				add(func(c cand) cand { c.name = e.defName; return c }, e.defNameSig)
			}
			if e.defVal != "" {
				add(func(c cand) cand { c.val = e.defVal; return c }, "ogrek-binint-negative")
			}
			if e.defTs != "" {
				add(func(c cand) cand { c.ts = e.defTs; return c }, "ogrek-binint-negative")
			}
			matched := false
			for _, c := range cands {
				ok := false
				if e.tsFloat != nil {
					pre := "D:" + c.name + " " + c.val + " "
					if strings.HasPrefix(g, pre) {
						tsv, perr := strconv.ParseFloat(g[len(pre):], 64)
						ok = perr == nil && math.Abs(tsv-*e.tsFloat) < 1
					}
				} else {
					ok = g == "D:"+c.name+" "+c.val+" "+c.ts
				}
				if ok {
					matched = true
					if c.sig != "" {
						for _, sg := range strings.Split(c.sig, ",") {
							what, _ := ev.IsKnown("C13", sg)
							rec.Known("C13", sg, what, fmt.Sprintf("sent (%q,(%v,%v)) -> %q", e.name, e.ts, e.val, g))
						}
						knownHit = true
					}
					break
				}
			}
			if !matched {
				if e.tsFloat != nil {
					t.Fatalf("item %d: pickle path dispatched %q, want %q + timestamp within 1s of %v (%s)", i, g, "D:"+e.name+" "+e.val+" ", *e.tsFloat, ctx)
				}
				t.Fatalf("item %d: pickle path dispatched %q, plain path %q (%s)", i, g, want, ctx)
			}
		}
		cutInside := len(cuts) > 0
		nt := nitems >= 2 && len(encodings) >= 2 && (nframes >= 2 || cutInside)
		if len(ctx) > 300 {
			ctx = ctx[:300] + "..."
		}
		rec.Case(ctx+fmt.Sprintf(" %x", hashB(stream)), nt, "py="+py.name, "impl="+impl, fmt.Sprintf("hit-known-finding=%v", knownHit), fmt.Sprintf("stream>4096B=%v", len(stream) > 4096), fmt.Sprintf("memo-references>0=%v", shared > 0), fmt.Sprintf("memo-references-in-later-frame=%v", sharedLater))
	})
}

// Malformed frames: wrong length, truncated payload, bad prefix -- after some
// well-formed frames.  The handler must return (ending that connection) after
// having fully processed the earlier frames, and never panic.
func TestPropMalformedFrame(t *testing.T) {
	rec := ev.Get("malformed_frame")
	rapid.Check(t, func(t *rapid.T) {
		py := pys[0]
		var stream []byte
		var want []string
		ngood := rapid.IntRange(0, 3).Draw(t, "ngood")
		for f := 0; f < ngood; f++ {
			name := rapid.SampledFrom(namePool[:4]).Draw(t, "name")
			payload, err := py.srv.Dumps(pyh.List(pyh.Tuple(pyh.Uni(name), pyh.Tuple(pyh.Int("1500000000"), pyh.Int(strconv.Itoa(f))))), rapid.IntRange(0, 4).Draw(t, "proto"), "pickle")
			if err != nil {
				t.Fatalf("HARNESS-ERROR: %v", err)
			}
			stream = append(stream, frame(payload)...)
			want = append(want, fmt.Sprintf("D:%s %d 1500000000", name, f))
		}
		payload, err := py.srv.Dumps(pyh.List(pyh.Tuple(pyh.Uni("bad.frame"), pyh.Tuple(pyh.Int("1"), pyh.Int("2")))), rapid.IntRange(0, 4).Draw(t, "badproto"), "pickle")
		if err != nil {
			t.Fatalf("HARNESS-ERROR: %v", err)
		}
		kind := rapid.SampledFrom([]string{"length-too-long", "length-too-short", "truncated-payload", "bad-prefix", "truncated-header", "huge-length", "garbage", "big-damaged", "big-damaged"}).Draw(t, "kind")
		var bad []byte
		switch kind {
		case "length-too-long":
			bad = frame(payload)
			binary.BigEndian.PutUint32(bad, uint32(len(payload)+rapid.IntRange(1, 50).Draw(t, "extra")))
		case "length-too-short":
			bad = frame(payload)
			binary.BigEndian.PutUint32(bad, uint32(rapid.IntRange(3, len(payload)-1).Draw(t, "short")))
		case "truncated-payload":
			bad = frame(payload)
			bad = bad[:4+rapid.IntRange(0, len(payload)-1).Draw(t, "keep")]
		case "bad-prefix":
			p2 := append([]byte(nil), payload...)
			p2[0] = rapid.SampledFrom([]byte{'x', 0, 0x81, '}', 'N'}).Draw(t, "b0")
			bad = frame(p2)
		case "truncated-header":
			bad = frame(payload)[:rapid.IntRange(1, 3).Draw(t, "hdr")]
		case "huge-length":
			bad = frame(payload)
			binary.BigEndian.PutUint32(bad, 0xfffffff0)
		case "big-damaged":
			// a frame of several KB (beyond any read-ahead) whose decoding fails early or in the middle
			var items []pyh.Spec
			for i, n := 0, rapid.IntRange(120, 400).Draw(t, "bigitems"); i < n; i++ {
				items = append(items, pyh.Tuple(pyh.Uni("bad.frame"), pyh.Tuple(pyh.Int("1"), pyh.Int("2"))))
			}
			big, err := py.srv.Dumps(pyh.List(items...), rapid.IntRange(0, 4).Draw(t, "bigproto"), "pickle")
			if err != nil {
				t.Fatalf("HARNESS-ERROR: %v", err)
			}
			at := rapid.SampledFrom([]int{8, 20, 60, len(big) / 2}).Draw(t, "damageAt")
			big[at] = rapid.SampledFrom([]byte{0xff, 0x00, 'Z', 0x7f}).Draw(t, "damage")
			bad = frame(big)
		default:
			bad = frame(rapid.SliceOfN(rapid.Byte(), 1, 40).Draw(t, "garbage"))
		}
		stream = append(stream, bad...)
		// ONE handler serves this connection and then another one (as the listener does with all its connections): what
		// the damaged connection leaves behind must not touch the next
		d := &capDisp{}
		hnd := input.NewPickle(d)
		var herr error
		var pn interface{}
		func() {
			defer func() { pn = recover() }()
			herr = hnd.Handle(&chunked{data: stream})
		}()
		if pn != nil {
			t.Fatalf("pickle handler panicked on a malformed frame (%s): %v", kind, pn)
		}
		got := append([]string(nil), d.events...)
		nextName := rapid.SampledFrom(namePool[:4]).Draw(t, "nextname")
		nextPayload, err := py.srv.Dumps(pyh.List(pyh.Tuple(pyh.Uni(nextName), pyh.Tuple(pyh.Int("1500000777"), pyh.Int("7")))), rapid.IntRange(0, 4).Draw(t, "nextproto"), "pickle")
		if err != nil {
			t.Fatalf("HARNESS-ERROR: %v", err)
		}
		before := len(d.events)
		var nerr error
		func() {
			defer func() { pn = recover() }()
			nerr = hnd.Handle(&chunked{data: frame(nextPayload)})
		}()
		if pn != nil || nerr != nil || len(d.events) != before+1 || d.events[before] != fmt.Sprintf("D:%s 7 1500000777", nextName) {
			t.Fatalf("a well-formed connection served by the same handler after a connection with a malformed frame (%s): error %v, panic %v, dispatched %q, want [%q]", kind, nerr, pn, d.events[before:], fmt.Sprintf("D:%s 7 1500000777", nextName))
		}
		// everything of the earlier frames, in order; the malformed frame itself may
		// not contribute a datapoint that is not in it
		if len(got) < len(want) {
			t.Fatalf("malformed frame (%s) after %d good frames: earlier frames not fully processed: got %q want %q (handler error: %v)", kind, ngood, got, want, herr)
		}
		for i := range want {
			if got[i] != want[i] {
				t.Fatalf("malformed frame (%s): event %d = %q, want %q", kind, i, got[i], want[i])
			}
		}
		for _, g := range got[len(want):] {
			if kind == "big-damaged" {
				break // (a flipped byte inside a string or number is a well-formed pickle of something else)
			}
			if g != "I" && g != "D:bad.frame 2 1" {
				t.Fatalf("malformed frame (%s) produced a datapoint that was never sent: %q", kind, g)
			}
		}
		rec.Case(fmt.Sprintf("%s after %d good; %x", kind, ngood, bad[:min(len(bad), 16)]), ngood >= 1, "kind="+kind, fmt.Sprintf("returned-error=%v", herr != nil))
	})
}

func hashB(b []byte) uint64 {
	var h uint64 = 1469598103934665603
	for _, c := range b {
		h ^= uint64(c)
		h *= 1099511628211
	}
	return h
}
