// C13 — several pickle connections at once on the one handler the listener uses for all of them: each connection's
// frames must come out as that connection's datapoints, in order, whatever the handler shares between connections.
package c13

import (
	"fmt"
	"strings"
	"sync"
	"testing"

	"github.com/grafana/carbon-relay-ng/input"
	"pgregory.net/rapid"

	"verifharness/internal/ev"
	"verifharness/internal/pyh"
)

func TestPropConcurrentConnections(t *testing.T) {
	rec := ev.Get("concurrent_connections")
	rapid.Check(t, func(t *rapid.T) {
		py := pys[rapid.IntRange(0, len(pys)-1).Draw(t, "interpreter")]
		maxProto := 4
		if py.py2 {
			maxProto = 2
		}
		nconn := rapid.IntRange(2, 6).Draw(t, "nconn")
		type connT struct {
			stream []byte
			cuts   []int
			want   []string
		}
		conns := make([]connT, nconn)
		for c := range conns {
			nframes := rapid.IntRange(1, 3).Draw(t, "nframes")
			var one []byte
			var wantOne []string
			for f := 0; f < nframes; f++ {
				proto := rapid.IntRange(0, maxProto).Draw(t, "proto")
				n := rapid.SampledFrom([]int{1, 3, 12, 60}).Draw(t, "nitems")
				items := make([]pyh.Spec, n)
				for i := range items {
					name := fmt.Sprintf("c13.conn%d.f%d.i%d.%s", c, f, i, rapid.SampledFrom([]string{"cpu", "a.longer.series.name.for.size", "m"}).Draw(t, "leaf"))
					ts := fmt.Sprint(1500000000 + i)
					val := fmt.Sprint(rapid.IntRange(0, 100000).Draw(t, "val"))
					items[i] = pyh.Tuple(pyh.Str(name), pyh.Tuple(pyh.Int(ts), pyh.Int(val)))
					wantOne = append(wantOne, "D:"+name+" "+val+" "+ts)
				}
				payload, err := py.srv.Dumps(pyh.List(items...), proto, "pickle")
				if err != nil {
					t.Fatalf("HARNESS-ERROR: %v", err)
				}
				one = append(one, frame(payload)...)
			}
			// the connection repeats its frames a number of times (a client sending the same batch shape every interval)
			reps := rapid.SampledFrom([]int{1, 10, 100}).Draw(t, "reps")
			for r := 0; r < reps; r++ {
				conns[c].stream = append(conns[c].stream, one...)
				conns[c].want = append(conns[c].want, wantOne...)
			}
			if sz := rapid.SampledFrom([]int{0, 3, 100, 4096}).Draw(t, "seg"); sz > 0 {
				for i := sz; i < len(conns[c].stream); i += sz {
					conns[c].cuts = append(conns[c].cuts, i)
				}
			}
		}
		d := &capDisp{}
		handler := input.NewPickle(d)
		errs := make([]error, nconn)
		panics := make([]interface{}, nconn)
		start := make(chan struct{})
		var wg sync.WaitGroup
		for c := range conns {
			wg.Add(1)
			go func(c int) {
				defer wg.Done()
				defer func() { panics[c] = recover() }()
				<-start
				errs[c] = handler.Handle(&chunked{data: conns[c].stream, cuts: conns[c].cuts})
			}(c)
		}
		close(start)
		wg.Wait()
		ctx := fmt.Sprintf("%d pickle connections at once on one handler (%s)", nconn, py.name)
		for c := range conns {
			if panics[c] != nil {
				t.Fatalf("connection %d: the handler panicked: %v; %s", c, panics[c], ctx)
			}
			if errs[c] != nil {
				t.Fatalf("connection %d: well-formed frames ended with an error: %v; %s", c, errs[c], ctx)
			}
		}
		got := make([][]string, nconn)
		for _, e := range d.events {
			if e == "I" {
				t.Fatalf("an item of well-formed frames was counted invalid; %s", ctx)
			}
			var c int
			if _, err := fmt.Sscanf(e, "D:c13.conn%d.", &c); err != nil || c < 0 || c >= nconn {
				t.Fatalf("a datapoint %q was processed that no connection sent; %s", e, ctx)
			}
			got[c] = append(got[c], e)
		}
		for c := range conns {
			if strings.Join(got[c], "\n") != strings.Join(conns[c].want, "\n") {
				i := 0
				for i < len(got[c]) && i < len(conns[c].want) && got[c][i] == conns[c].want[i] {
					i++
				}
				g, w := "(nothing)", "(nothing)"
				if i < len(got[c]) {
					g = got[c][i]
				}
				if i < len(conns[c].want) {
					w = conns[c].want[i]
				}
				t.Fatalf("connection %d: %d datapoints processed, %d sent; first difference at %d: processed %q, sent %q; %s", c, len(got[c]), len(conns[c].want), i, g, w, ctx)
			}
		}
		rec.Case(fmt.Sprintf("%s n=%d lens=%v", py.name, nconn, func() []int {
			var l []int
			for _, c := range conns {
				l = append(l, len(c.stream))
			}
			return l
		}()), nconn >= 2, fmt.Sprintf("connections=%d", nconn))
	})
}
