// C14 — nothing received from the network or the admin port can crash the relay.
package c14

import (
	"bufio"
	"encoding/binary"
	"encoding/hex"
	"encoding/json"
	"fmt"
	"io"
	"os"
	"os/exec"
	"path/filepath"
	"strings"
	"sync"
	"testing"
	"time"

	"github.com/grafana/carbon-relay-ng/input"
	"github.com/grafana/carbon-relay-ng/matcher"
	"pgregory.net/rapid"

	"verifharness/internal/ev"
	"verifharness/internal/gen"
	"verifharness/internal/h"
)

func TestMain(m *testing.M) {
	if os.Getenv("VERIF_C14_WORKER") != "" {
		os.Exit(m.Run()) // worker mode: no recorder, default logging stays as the relay has it
	}
	h.Init()
	code := m.Run()
	stopChild()
	ev.Flush()
	os.Exit(code)
}

// ---- child management ----------------------------------------------------------------------------

type child struct {
	cmd    *exec.Cmd
	in     io.WriteCloser
	out    *bufio.Reader
	errBuf *tailBuf
	served int
}

type tailBuf struct {
	mu sync.Mutex
	b  []byte
}

func (t *tailBuf) Write(p []byte) (int, error) {
	t.mu.Lock()
	t.b = append(t.b, p...)
	if len(t.b) > 200000 {
		t.b = t.b[len(t.b)-100000:]
	}
	t.mu.Unlock()
	return len(p), nil
}
func (t *tailBuf) String() string { t.mu.Lock(); defer t.mu.Unlock(); return string(t.b) }

var cur *child
var childSeq int
var curHistory []caseT // cases the current worker has handled (a delayed crash may belong to an earlier one)

func startChild() (*child, error) {
	childSeq++
	dir := filepath.Join(scratchDir(), fmt.Sprintf("worker%d", childSeq%16))
	os.RemoveAll(dir)
	os.MkdirAll(dir, 0755)
	c := exec.Command(os.Args[0], "-test.run", "^TestC14Worker$", "-test.timeout", "0")
	c.Env = append(os.Environ(), "VERIF_C14_WORKER=1", "VERIF_C14_DIR="+dir, "VERIF_STATS_FILE=")
	in, _ := c.StdinPipe()
	out, _ := c.StdoutPipe()
	eb := &tailBuf{}
	c.Stderr = eb
	if err := c.Start(); err != nil {
		return nil, err
	}
	ch := &child{cmd: c, in: in, out: bufio.NewReaderSize(out, 1<<20), errBuf: eb}
	// wait for READY (the table and the sinks are up)
	ready := make(chan error, 1)
	go func() {
		for {
			l, err := ch.out.ReadString('\n')
			if err != nil {
				ready <- err
				return
			}
			if strings.HasPrefix(l, "READY") {
				ready <- nil
				return
			}
		}
	}()
	select {
	case err := <-ready:
		if err != nil {
			return nil, fmt.Errorf("worker did not start: %v\n%s", err, eb.String())
		}
	case <-time.After(60 * time.Second):
		c.Process.Kill()
		return nil, fmt.Errorf("worker did not become ready")
	}
	return ch, nil
}

func stopChild() {
	if cur != nil {
		cur.in.Close()
		cur.cmd.Process.Kill()
		cur.cmd.Wait()
		cur = nil
	}
}

func scratchDir() string {
	d := os.Getenv("VERIF_SCRATCH")
	if d == "" {
		d = os.TempDir()
	}
	return d
}

// apply sends the case to a live worker; died=true if the worker process ended while handling it.
func apply(c caseT) (rep replyT, died bool, diag string, err error) {
	if cur == nil || cur.served >= 40 {
		stopChild()
		cur, err = startChild()
		if err != nil {
			return rep, false, "", err
		}
		curHistory = nil
	}
	cur.served++
	curHistory = append(curHistory, c)
	b, _ := json.Marshal(c)
	if _, werr := fmt.Fprintf(cur.in, "%s\n", b); werr != nil {
		died = true
	}
	type res struct {
		line string
		err  error
	}
	rc := make(chan res, 1)
	ch := cur
	go func() {
		for {
			l, e := ch.out.ReadString('\n')
			if e != nil {
				rc <- res{"", e}
				return
			}
			if strings.HasPrefix(l, "OK ") || strings.HasPrefix(l, "BADCASE") {
				rc <- res{l, nil}
				return
			}
		}
	}()
	select {
	case r := <-rc:
		if r.err != nil {
			died = true
		} else {
			json.Unmarshal([]byte(strings.TrimPrefix(strings.TrimSpace(r.line), "OK ")), &rep)
		}
	case <-time.After(time.Duration(c.SettleMs)*time.Millisecond + 60*time.Second):
		// a hang is not this property's subject (C06/C17 own liveness): restart the worker, do not report
		stopChild()
		return rep, false, "", fmt.Errorf("HANG")
	}
	if died {
		ch.cmd.Wait()
		diag = ch.errBuf.String()
		if i := strings.Index(diag, "panic:"); i >= 0 {
			diag = diag[i:]
		} else if i := strings.Index(diag, "fatal error:"); i >= 0 {
			diag = diag[i:]
		}
		if len(diag) > 2500 {
			diag = diag[:2500]
		}
		diag = fmt.Sprintf("worker exit: %v\n%s", ch.cmd.ProcessState, diag)
		cur = nil
	}
	return rep, died, diag, nil
}

// ---- generators ----------------------------------------------------------------------------------------

// (besides the integer limits: the values that overflow to exactly 0 or to a tiny or negative number when a count of
// seconds / milliseconds / microseconds is turned into nanoseconds -- k*2^55, k*2^58, k*2^61, limit/1e9, limit/1e6, limit/1e3)
var danger = []string{"0", "0", "1", "2", "10", "1000", "2147483648", "4294967296", "9223372036854775807", "9223372036854775808", "99999999999999999999",
	"36028797018963968", "288230376151711744", "2305843009213693952", "9223372037", "9223372036855", "9223372036854776", "18446744073710", "18446744073709551615", "72057594037927936"}

// sizes: buffers the relay really allocates; absurd sizes are plain memory exhaustion requested by the
// operator, not a crash class of the property, so they stay within what a machine can satisfy
var dangerSize = []string{"0", "0", "1", "2", "10", "1000", "100000"}

func isSize(label string) bool {
	for _, k := range []string{"connbuf", "iobuf", "spoolbuf", "bufSize", "concurrency", "spoolmaxbytesperfile", "flushMaxNum", "spoolsyncevery"} {
		if strings.HasSuffix(label, k) {
			return true
		}
	}
	return false
}

func num(t *rapid.T, label string, safe string) string {
	if rapid.IntRange(0, 2).Draw(t, label+".danger") == 0 {
		if isSize(label) {
			return rapid.SampledFrom(dangerSize).Draw(t, label)
		}
		return rapid.SampledFrom(danger).Draw(t, label)
	}
	return safe
}

// reVal: one of the fixed values, or (1 in 3) a grammar-free string over regex metacharacters.
func reVal(t *rapid.T, label string, fixed []string) string {
	if rapid.IntRange(0, 2).Draw(t, label+".soup") == 0 {
		return gen.RegexSoup(t, label)
	}
	return rapid.SampledFrom(fixed).Draw(t, label)
}

// modOpt: one of the fixed option strings, or (1 in 3) regex=/notRegex= with a grammar-free value.
func modOpt(t *rapid.T, fixed []string) string {
	if rapid.IntRange(0, 2).Draw(t, "opt.soup") == 0 {
		return rapid.SampledFrom([]string{"regex=", "notRegex="}).Draw(t, "opt.k") + gen.RegexSoup(t, "opt.v")
	}
	return rapid.SampledFrom(fixed).Draw(t, "opt")
}

func filterOpts(t *rapid.T, label string) string {
	var parts []string
	for _, k := range []string{"prefix", "notPrefix", "sub", "notSub", "regex", "notRegex"} {
		if rapid.IntRange(0, 4).Draw(t, label+"."+k) == 0 {
			v := rapid.SampledFrom([]string{"foo", "stats", "bar", "", "^foo", "(", "[", ".*", "x{99999}", "true", "5"}).Draw(t, label+"."+k+".v")
			if rapid.Bool().Draw(t, label+"."+k+".soup") {
				v = gen.RegexSoup(t, label+"."+k+".v")
			}
			parts = append(parts, k+"="+v)
		}
	}
	return strings.Join(parts, " ")
}

func destSpec(t *rapid.T, label string, allowFilter bool) string {
	addr := rapid.SampledFrom([]string{"{SINK}", "{SINK}", "{SINK}:inst", "127.0.0.1:1", "127.0.0.1", "localhost:1", ":", "", "[::1]:1", "256.1.1.1:70000"}).Draw(t, label+".addr")
	s := addr
	if allowFilter && rapid.Bool().Draw(t, label+".f") {
		s += " " + filterOpts(t, label+".filter")
	}
	defaults := map[string]string{"flush": "50", "reconn": "50", "connbuf": "100", "iobuf": "4096", "spoolbuf": "100", "spoolmaxbytesperfile": "10000", "spoolsyncevery": "10", "spoolsyncperiod": "50", "spoolsleep": "10", "unspoolsleep": "10"}
	for _, k := range []string{"flush", "reconn", "connbuf", "iobuf", "spoolbuf", "spoolmaxbytesperfile", "spoolsyncevery", "spoolsyncperiod", "spoolsleep", "unspoolsleep"} {
		if rapid.IntRange(0, 2).Draw(t, label+"."+k+"?") > 0 {
			s += " " + k + "=" + num(t, label+"."+k, defaults[k])
		}
	}
	if rapid.Bool().Draw(t, label+".spool?") {
		s += " spool=" + rapid.SampledFrom([]string{"true", "false", "maybe"}).Draw(t, label+".spool")
	}
	if rapid.IntRange(0, 2).Draw(t, label+".pickle?") == 0 {
		s += " pickle=" + rapid.SampledFrom([]string{"true", "false"}).Draw(t, label+".pickle")
	}
	return s
}

var docExamples = []string{
	"addRoute sendAllMatch carbon-default  {SINK} spool=true pickle=false",
	"addRoute grafanaNet grafanaNet  {HTTP} your-grafana.net-api-key {DIR}/schemas.conf {DIR}/aggregation.conf",
	"addBlack prefix collectd.localhost",
	`addBlack regex ^foo\..*\.cpu+`,
	`addAgg sum regex=^stats\.timers\.(app|proxy|static)[0-9]+\.requests\.(.*) stats.timers._sum_$1.requests.$2 10 20 cache=true`,
	`addAgg avg regex=^stats\.timers\.(app|proxy|static)[0-9]+\.requests\.(.*) sub=requests stats.timers._avg_$1.requests.$2 5 10 dropRaw=false`,
	"addRoute sendAllMatch carbon-tagger sub==  {SINK}",
	"addRoute sendFirstMatch analytics regex=(Err/s|wait_time|logger)  {SINK} prefix=prod. spool=true pickle=true  {SINK} prefix=staging. spool=true pickle=true",
	"addRewriter foo bar 1", "addRewriter /^/ prefix. -1", `addRewriter /server\.([^.]+)/ servers.${1}.collectd -1`,
	"addRoute pubsub pubsub", "addRoute kafkaMdm k", "modDest carbon-default 0 prefix=foo", "modRoute carbon-default sub=bar", "delRoute carbon-default", "view", "help", "addDest carbon-default {SINK}",
}

func genCommand(t *rapid.T, keys *[]string) string {
	key := func() string {
		if len(*keys) > 0 && rapid.Bool().Draw(t, "knownkey") {
			return rapid.SampledFrom(*keys).Draw(t, "key")
		}
		k := rapid.SampledFrom([]string{"r1", "r2", "carbon-default", "gn", "x"}).Draw(t, "newkey")
		return k
	}
	switch rapid.IntRange(0, 13).Draw(t, "cmdkind") {
	case 0:
		return "addBlack " + rapid.SampledFrom([]string{"prefix", "notPrefix", "sub", "notSub", "regex", "notRegex", "bogus", ""}).Draw(t, "m") + " " + reVal(t, "v", []string{"foo", "(", "stats.", ""})
	case 1:
		return "addRewriter " + rapid.SampledFrom([]string{"foo", "/foo/", "/(/", "", "/"}).Draw(t, "old") + " " + rapid.SampledFrom([]string{"bar", "${1}", ""}).Draw(t, "new") + " " + rapid.SampledFrom([]string{"-1", "0", "1", "-2", "x", "99999999999999999999"}).Draw(t, "max")
	case 2, 3:
		fn := rapid.SampledFrom([]string{"sum", "avg", "count", "max", "min", "last", "delta", "derive", "stdev", "percentiles", "bogus"}).Draw(t, "fn")
		re := rapid.SampledFrom([]string{"regex=^foo\\.(.*)", "regex=.*", "regex=(", "", "^foo", "regex=stats"}).Draw(t, "re")
		if rapid.IntRange(0, 2).Draw(t, "re.soup") == 0 {
			re = "regex=" + gen.RegexSoup(t, "re")
		}
		opts := filterOpts(t, "aggf")
		s := "addAgg " + fn + " " + re
		if opts != "" {
			s += " " + opts
		}
		s += " " + rapid.SampledFrom([]string{"agg.$1", "out", "", "${9}"}).Draw(t, "fmt") + " " + num(t, "interval", "10") + " " + num(t, "wait", "20")
		if rapid.Bool().Draw(t, "cache?") {
			s += " cache=" + rapid.SampledFrom([]string{"true", "false"}).Draw(t, "cache")
		}
		if rapid.Bool().Draw(t, "dropraw?") {
			s += " dropRaw=" + rapid.SampledFrom([]string{"true", "false"}).Draw(t, "dropRaw")
		}
		return s
	case 4, 5, 6:
		typ := rapid.SampledFrom([]string{"sendAllMatch", "sendFirstMatch", "consistentHashing"}).Draw(t, "rtype")
		k := key()
		*keys = append(*keys, k)
		s := "addRoute " + typ + " " + k
		if o := filterOpts(t, "rf"); o != "" {
			s += " " + o
		}
		nd := rapid.IntRange(0, 3).Draw(t, "ndest")
		for j := 0; j < nd; j++ {
			s += "  " + destSpec(t, fmt.Sprintf("d%d", j), typ != "consistentHashing" || rapid.IntRange(0, 5).Draw(t, "chf") == 0)
		}
		return s
	case 7:
		k := key()
		*keys = append(*keys, k)
		s := "addRoute grafanaNet " + k
		if o := filterOpts(t, "gf"); o != "" {
			s += " " + o
		}
		s += "  " + rapid.SampledFrom([]string{"{HTTP}", "{HTTP}", "http://127.0.0.1:1/metrics", "notaurl", "http://x/"}).Draw(t, "addr") + " " + rapid.SampledFrom([]string{"key", "1:2", ""}).Draw(t, "apikey") +
			" " + rapid.SampledFrom([]string{"{DIR}/schemas.conf", "{DIR}/schemas.conf", "{DIR}/missing.conf", "{DIR}/bad-schemas.conf"}).Draw(t, "sf") + " {DIR}/aggregation.conf"
		for _, k := range []string{"concurrency", "bufSize", "flushMaxNum", "flushMaxWait", "timeout", "orgId", "errBackoffMin"} {
			if rapid.IntRange(0, 2).Draw(t, k+"?") == 0 {
				s += " " + k + "=" + num(t, k, "5")
			}
		}
		if rapid.IntRange(0, 3).Draw(t, "ebf?") == 0 {
			s += " errBackoffFactor=" + rapid.SampledFrom([]string{"1.5", "0", "x", "1e999", "-1"}).Draw(t, "ebf")
		}
		for _, k := range []string{"sslverify", "spool", "blocking"} {
			if rapid.IntRange(0, 3).Draw(t, k+"?") == 0 {
				s += " " + k + "=" + rapid.SampledFrom([]string{"true", "false"}).Draw(t, k)
			}
		}
		return s
	case 8:
		return "modDest " + key() + " " + rapid.SampledFrom([]string{"0", "1", "5", "x", "99999999999999999999"}).Draw(t, "idx") + " " + modOpt(t, []string{"prefix=foo", "regex=(", "addr={SINK}", "addr=127.0.0.1:1", "addr=", "bogus=1", ""})
	case 9:
		return "modRoute " + key() + " " + modOpt(t, []string{"prefix=foo", "regex=(", "sub=", "bogus=1", "", "notRegex=.*"})
	case 10:
		return "delRoute " + key()
	case 11:
		return rapid.SampledFrom([]string{"!view", "help", "addDest r1 {SINK}", "addRoute pubsub p", "addRoute kafkaMdm k b t", "addRoute", "addAgg", "", "del", "mod"}).Draw(t, "misc")
	case 12:
		// mutate a documented example: drop / duplicate / replace a token
		ex := rapid.SampledFrom(docExamples).Draw(t, "example")
		toks := strings.Split(ex, " ")
		i := rapid.IntRange(0, len(toks)-1).Draw(t, "tok")
		switch rapid.IntRange(0, 3).Draw(t, "mut") {
		case 0:
			toks = append(toks[:i:i], toks[i+1:]...)
		case 1:
			toks = append(toks[:i+1:i+1], toks[i:]...)
		case 2:
			toks[i] = rapid.SampledFrom(dangerSize).Draw(t, "rep")
		}
		return strings.Join(toks, " ")
	default:
		// what is not a command at all: printable garbage, raw bytes, lines longer than the admin port's 1024-byte read,
		// near-miss spellings of the command words (the port dispatches on prefixes: add*, del*, mod*, view*, help*)
		switch rapid.IntRange(0, 3).Draw(t, "garbagekind") {
		case 0:
			return rapid.StringMatching(`[ -~]{0,40}`).Draw(t, "garbage")
		case 1:
			return "!admin " + hex.EncodeToString(rapid.SliceOfN(rapid.Byte(), 1, 80).Draw(t, "rawbytes"))
		case 2:
			head := rapid.SampledFrom([]string{"addBlack prefix ", "addRoute sendAllMatch long  ", "view ", "addAgg sum regex=", "modRoute ", ""}).Draw(t, "longhead")
			fill := rapid.SampledFrom([]string{"x", " ", "a ", "=", "  "}).Draw(t, "longfill")
			n := rapid.SampledFrom([]int{1000, 1023, 1024, 1025, 2500}).Draw(t, "longlen")
			return "!admin " + hex.EncodeToString([]byte(head+strings.Repeat(fill, n/len(fill))+"\n"))
		default:
			return "!admin " + hex.EncodeToString([]byte(rapid.SampledFrom([]string{"viewx\n", "view 1\n", "view\r\n", "helpme\n", "additional\n", "add\n", "delete everything\n", "mod\n", "modx y z\n",
				"addBlack\tprefix\tfoo\n", " addBlack prefix foo\n", "addBlack prefix foo\naddBlack prefix bar\n", "\x00\n", "\xff\xfe\n", "view\x00\n", "ADDBLACK prefix foo\n"}).Draw(t, "nearmiss")))
		}
	}
}

func genTOML(t *rapid.T, keys *[]string) string {
	var sb strings.Builder
	switch rapid.IntRange(0, 4).Draw(t, "tomlkind") {
	case 0:
		sb.WriteString("[[aggregation]]\n")
		fmt.Fprintf(&sb, "function = '%s'\n", rapid.SampledFrom([]string{"sum", "avg", "percentiles", "bogus", "count"}).Draw(t, "fn"))
		if rapid.IntRange(0, 2).Draw(t, "regex?") > 0 {
			fmt.Fprintf(&sb, "regex = '%s'\n", reVal(t, "re", []string{`^foo\.(.*)`, ".*", "(", "stats"}))
		}
		if rapid.Bool().Draw(t, "prefix?") {
			fmt.Fprintf(&sb, "prefix = '%s'\n", rapid.SampledFrom([]string{"foo", "stats", ""}).Draw(t, "prefix"))
		}
		fmt.Fprintf(&sb, "format = '%s'\n", rapid.SampledFrom([]string{"agg.$1", "out", ""}).Draw(t, "fmt"))
		if rapid.IntRange(0, 3).Draw(t, "interval?") > 0 {
			fmt.Fprintf(&sb, "interval = %s\n", rapid.SampledFrom([]string{"0", "1", "10", "-1", "2147483648"}).Draw(t, "interval"))
		}
		if rapid.IntRange(0, 3).Draw(t, "wait?") > 0 {
			fmt.Fprintf(&sb, "wait = %s\n", rapid.SampledFrom([]string{"0", "1", "20", "-5"}).Draw(t, "wait"))
		}
		fmt.Fprintf(&sb, "dropRaw = %v\ncache = %v\n", rapid.Bool().Draw(t, "dropRaw"), rapid.Bool().Draw(t, "cache"))
	case 1:
		typ := rapid.SampledFrom([]string{"sendAllMatch", "sendFirstMatch", "consistentHashing", "bogus"}).Draw(t, "rtype")
		k := rapid.SampledFrom([]string{"t1", "t2", "r1"}).Draw(t, "key")
		*keys = append(*keys, k)
		fmt.Fprintf(&sb, "[[route]]\nkey = '%s'\ntype = '%s'\n", k, typ)
		if rapid.Bool().Draw(t, "prefix?") {
			fmt.Fprintf(&sb, "prefix = '%s'\n", rapid.SampledFrom([]string{"foo", "stats"}).Draw(t, "prefix"))
		}
		sb.WriteString("destinations = [\n")
		for j, nd := 0, rapid.IntRange(0, 3).Draw(t, "ndest"); j < nd; j++ {
			fmt.Fprintf(&sb, "  '%s',\n", destSpec(t, fmt.Sprintf("td%d", j), typ != "consistentHashing"))
		}
		sb.WriteString("]\n")
	case 2:
		k := rapid.SampledFrom([]string{"gn1", "gn2"}).Draw(t, "key")
		*keys = append(*keys, k)
		fmt.Fprintf(&sb, "[[route]]\nkey = '%s'\ntype = 'grafanaNet'\naddr = '{HTTP}'\napikey = 'k'\nschemasFile = '%s'\naggregationFile = '{DIR}/aggregation.conf'\n", k,
			rapid.SampledFrom([]string{"{DIR}/schemas.conf", "{DIR}/schemas.conf", "{DIR}/bad-schemas.conf", "{DIR}/missing"}).Draw(t, "sf"))
		for _, o := range []string{"concurrency", "bufSize", "flushMaxNum", "flushMaxWait", "timeout", "orgId", "errBackoffMin"} {
			if rapid.IntRange(0, 2).Draw(t, o+"?") == 0 {
				fmt.Fprintf(&sb, "%s = %s\n", o, rapid.SampledFrom([]string{"0", "1", "3", "-1", "100"}).Draw(t, o))
			}
		}
	case 3:
		fmt.Fprintf(&sb, "[[rewriter]]\nold = '%s'\nnew = '%s'\nnot = '%s'\nmax = %s\n", rapid.SampledFrom([]string{"foo", "/(/", "", "/foo/"}).Draw(t, "old"), "x", rapid.SampledFrom([]string{"", "/(/", "bar"}).Draw(t, "not"), rapid.SampledFrom([]string{"-1", "0", "3", "-7"}).Draw(t, "max"))
	default:
		fmt.Fprintf(&sb, "blacklist = [ '%s' ]\n", rapid.SampledFrom([]string{"prefix foo", "regex (", "bogus x", "prefix", "sub stats"}).Draw(t, "bl"))
	}
	return sb.String()
}

var trafficNames = []string{"foo.bar", "foo.a.b", "stats.timers.app1.requests.x", "stats.x", "bar", "collectd.localhost.cpu", "prod.Err/s", "a=b.unit=B.mtype=gauge", "x;tag=1"}

func genPlain(t *rapid.T) string {
	var sb strings.Builder
	for i, n := 0, rapid.IntRange(1, 12).Draw(t, "nlines"); i < n; i++ {
		if rapid.IntRange(0, 9).Draw(t, "junk") == 0 {
			sb.Write(rapid.SliceOfN(rapid.Byte(), 0, 30).Draw(t, "junkbytes"))
			sb.WriteString("\n")
			continue
		}
		fmt.Fprintf(&sb, "%s %s %s\n", rapid.SampledFrom(trafficNames).Draw(t, "name"), rapid.SampledFrom([]string{"1", "2.5", "NaN", "-1", "1e308", "x"}).Draw(t, "val"),
			rapid.SampledFrom([]string{"1500000000", "1", "0", "4294967295", "99999999999", "-1", "1.5", time.Now().Format("20060102")}).Draw(t, "ts"))
	}
	// and some lines stamped "now" so that aggregation buckets are open
	now := time.Now().Unix()
	for i := 0; i < 3; i++ {
		fmt.Fprintf(&sb, "%s %d %d\n", rapid.SampledFrom(trafficNames).Draw(t, "nowname"), i, now-int64(i))
	}
	return sb.String()
}

// genTargeted: an otherwise valid configuration in which exactly ONE parameter takes a value that cannot work
// (or the one operation that empties a route), followed by traffic that reaches it.
func genTargeted(t *rapid.T, keys *[]string) []string {
	timeOpts := []string{"flush", "reconn", "spoolsyncperiod", "spoolsleep", "unspoolsleep"}
	sizeOpts := []string{"connbuf", "iobuf", "spoolbuf", "spoolmaxbytesperfile", "spoolsyncevery"}
	switch rapid.IntRange(0, 5).Draw(t, "targetkind") {
	case 0, 1: // one destination option
		typ := rapid.SampledFrom([]string{"sendAllMatch", "sendFirstMatch", "consistentHashing"}).Draw(t, "rtype")
		*keys = append(*keys, "tk")
		opt := rapid.SampledFrom(append(append([]string{}, timeOpts...), sizeOpts...)).Draw(t, "opt")
		val := rapid.SampledFrom([]string{"0", "0", "0", "1", "9223372036854775807", "9223372036854775808", "2147483648"}).Draw(t, "val")
		if isSize(opt) {
			val = rapid.SampledFrom([]string{"0", "0", "1"}).Draw(t, "sizeval")
		}
		spool := rapid.SampledFrom([]string{" spool=true", " spool=true", ""}).Draw(t, "spool")
		if strings.HasPrefix(opt, "spool") || strings.HasPrefix(opt, "unspool") {
			spool = " spool=true" // the option only matters with spooling on
		}
		d1 := "{SINK}" + map[bool]string{true: ":a", false: ""}[typ == "consistentHashing"] + " " + opt + "=" + val + spool
		d2 := "{SINK}" + map[bool]string{true: ":b", false: ""}[typ == "consistentHashing"] + spool
		if rapid.Bool().Draw(t, "astoml") {
			return []string{"!toml " + hex.EncodeToString([]byte(fmt.Sprintf("[[route]]\nkey = 'tk'\ntype = '%s'\ndestinations = [\n  '%s',\n  '%s'\n]\n", typ, d1, d2)))}
		}
		return []string{"addRoute " + typ + " tk  " + d1 + "  " + d2}
	case 2: // aggregation interval / wait / missing pieces
		if rapid.Bool().Draw(t, "astoml") {
			var sb strings.Builder
			sb.WriteString("[[aggregation]]\nfunction = 'sum'\nformat = 'agg.$1'\n")
			if rapid.IntRange(0, 2).Draw(t, "regex?") > 0 {
				sb.WriteString("regex = '^foo\\.(.*)'\n")
			} else {
				sb.WriteString("prefix = 'foo'\n")
			}
			if rapid.IntRange(0, 2).Draw(t, "interval?") > 0 {
				fmt.Fprintf(&sb, "interval = %s\n", rapid.SampledFrom([]string{"0", "1", "10"}).Draw(t, "interval"))
			}
			fmt.Fprintf(&sb, "wait = %s\ndropRaw = %v\n", rapid.SampledFrom([]string{"0", "1", "20"}).Draw(t, "wait"), rapid.Bool().Draw(t, "dropraw"))
			return []string{"!toml " + hex.EncodeToString([]byte(sb.String()))}
		}
		return []string{fmt.Sprintf("addAgg sum regex=^foo\\.(.*) agg.$1 %s %s", rapid.SampledFrom([]string{"0", "1", "10", "9223372036854775807"}).Draw(t, "interval"), rapid.SampledFrom([]string{"0", "1", "20", "9223372036854775807"}).Draw(t, "wait"))}
	case 3: // grafanaNet with one odd option
		*keys = append(*keys, "tgn")
		opt := rapid.SampledFrom([]string{"concurrency", "bufSize", "flushMaxNum", "flushMaxWait", "timeout", "orgId", "errBackoffMin", "errBackoffFactor"}).Draw(t, "gopt")
		val := rapid.SampledFrom([]string{"0", "0", "1"}).Draw(t, "gval")
		return []string{"addRoute grafanaNet tgn  {HTTP} key {DIR}/schemas.conf {DIR}/aggregation.conf concurrency=2 bufSize=100 " + opt + "=" + val}
	case 4: // empty a route destination by destination, with traffic in between
		typ := rapid.SampledFrom([]string{"consistentHashing", "consistentHashing", "sendAllMatch", "sendFirstMatch"}).Draw(t, "rtype")
		*keys = append(*keys, "tdel")
		steps := []string{"addRoute " + typ + " tdel  {SINK}:a  {SINK}:b"}
		for i := 0; i < 3; i++ {
			steps = append(steps, fmt.Sprintf("!deldest tdel %d", rapid.IntRange(0, 1).Draw(t, "di")), "!plain "+hex.EncodeToString([]byte("foo.bar 1 1500000000\nfoo.a.b 2 1500000001\n")))
		}
		return steps
	default: // storage-schemas file with a zero-precision retention
		*keys = append(*keys, "tsc")
		if rapid.Bool().Draw(t, "astoml") {
			return []string{"!toml " + hex.EncodeToString([]byte("[[route]]\nkey = 'tsc'\ntype = 'grafanaNet'\naddr = '{HTTP}'\napikey = 'k'\nschemasFile = '{DIR}/bad-schemas.conf'\naggregationFile = '{DIR}/aggregation.conf'\nconcurrency = 2\nbufSize = 100\n"))}
		}
		return []string{"addRoute grafanaNet tsc  {HTTP} key {DIR}/bad-schemas.conf {DIR}/aggregation.conf concurrency=2 bufSize=100"}
	}
}

func TestPropAdminAndTraffic(t *testing.T) {
	rec := ev.Get("admin_and_traffic")
	rapid.Check(t, func(t *rapid.T) {
		var keys []string
		var c caseT
		n := rapid.IntRange(1, 6).Draw(t, "ncmds")
		targeted := rapid.IntRange(0, 9).Draw(t, "targeted") < 5
		if targeted {
			c.Steps = append(c.Steps, genTargeted(t, &keys)...)
			n = rapid.IntRange(0, 1).Draw(t, "extra")
		}
		for i := 0; i < n; i++ {
			if rapid.IntRange(0, 4).Draw(t, "toml?") == 0 {
				c.Steps = append(c.Steps, "!toml "+hex.EncodeToString([]byte(genTOML(t, &keys))))
			} else {
				c.Steps = append(c.Steps, genCommand(t, &keys))
			}
		}
		c.Steps = append(c.Steps, "!plain "+hex.EncodeToString([]byte(genPlain(t))))
		c.Steps = append(c.Steps, "!sleep "+fmt.Sprint(rapid.SampledFrom([]int{5, 30, 120}).Draw(t, "sleep1")))
		// later admin activity: deletions down to zero, modifications, view
		for i, m := 0, rapid.IntRange(0, 5).Draw(t, "nlater"); i < m; i++ {
			switch rapid.IntRange(0, 3).Draw(t, "later") {
			case 0:
				if len(keys) > 0 {
					c.Steps = append(c.Steps, fmt.Sprintf("!deldest %s %d", rapid.SampledFrom(keys).Draw(t, "dk"), rapid.IntRange(0, 2).Draw(t, "di")))
				}
			case 1:
				c.Steps = append(c.Steps, genCommand(t, &keys))
			case 2:
				c.Steps = append(c.Steps, "!view")
			default:
				c.Steps = append(c.Steps, "!plain "+hex.EncodeToString([]byte(genPlain(t))))
			}
		}
		c.Steps = append(c.Steps, "!plain "+hex.EncodeToString([]byte(genPlain(t))))
		if rapid.IntRange(0, 2).Draw(t, "concurrent-connections") > 0 {
			// several input connections at once, each bringing its own fresh names
			c.Steps = append(c.Steps, fmt.Sprintf("!plainN %d %d %s", rapid.IntRange(2, 8).Draw(t, "nconn"), rapid.SampledFrom([]int{5, 40, 150}).Draw(t, "reps"), hex.EncodeToString([]byte(genPlain(t)))))
		}
		c.Steps = append(c.Steps, "!view")
		c.SettleMs = rapid.SampledFrom([]int{20, 100, 300}).Draw(t, "settle")
		rep, died, diag, err := apply(c)
		if err != nil {
			if err.Error() == "HANG" {
				t.Skip("worker hung (liveness is not this property's subject)")
			}
			t.Fatalf("HARNESS-ERROR: %v", err)
		}
		if died && len(curHistory) > 1 {
			// the worker had handled other cases before: find out which one kills a FRESH relay on its own (longer settle)
			hist := curHistory
			culprit := -1
			for i := len(hist) - 1; i >= 0 && i >= len(hist)-12; i-- {
				stopChild()
				hc := hist[i]
				hc.SettleMs = 1200
				_, d2, diag2, err2 := apply(hc)
				if err2 == nil && d2 {
					culprit, diag = i, diag2
					break
				}
			}
			stopChild()
			if culprit >= 0 && culprit != len(hist)-1 {
				t.Fatalf("the relay process died; the sequence that kills a fresh relay on its own is an EARLIER one (the crash is delayed):\n  %s\n%s", strings.Join(hist[culprit].Steps, "\n  "), diag)
			}
			if culprit < 0 {
				t.Fatalf("the relay process died after %d sequences, none of the last 12 kills a fresh relay on its own; last sequence:\n  %s\n%s", len(hist), strings.Join(c.Steps, "\n  "), diag)
			}
		}
		if died {
			t.Fatalf("the relay process died while handling this sequence of admin commands / configuration / traffic:\n  %s\n%s", strings.Join(c.Steps, "\n  "), diag)
		}
		rec.Case(strings.Join(c.Steps, " | "), rep.Accepted >= 3, fmt.Sprintf("accepted>=3=%v", rep.Accepted >= 3), fmt.Sprintf("rejected>0=%v", rep.Rejected > 0), fmt.Sprintf("targeted-single-parameter=%v", targeted), fmt.Sprintf("concurrent-input-connections=%v", strings.Contains(strings.Join(c.Steps, " "), "!plainN ")))
		rec.Num("steps", int64(len(c.Steps)))
		rec.Num("accepted", int64(rep.Accepted))
		rec.Num("rejected", int64(rep.Rejected))
	})
}

// ---- in-process: byte streams on the plain and pickle inputs -----------------------------------------------------

type nullDisp struct{ n, inv int }

func (d *nullDisp) Dispatch(buf []byte) { d.n++ }
func (d *nullDisp) IncNumInvalid()      { d.inv++ }

var pickleSeeds = []string{
	"80025d71002858030000006162637101284a00e1f5055d4b017471027471036558030000006465667104284a01e1f5054740091eb851eb851f747105747106652e",
	"286c70300a2856612e620a70310a28493135303030303030300a46312e350a7470320a7470330a612e",
	"5d71002855036162637101284a00e1f505473ff800000000000074710274710365",
	"80049526000000000000005d948c03612e62944a00e1f505473ff80000000000008694869461", "80025d2e", "286c2e", "5d2e",
}

func frame(p []byte) []byte {
	b := make([]byte, 4+len(p))
	binary.BigEndian.PutUint32(b, uint32(len(p)))
	copy(b[4:], p)
	return b
}

func handlePickle(stream []byte) (panicked interface{}) {
	defer func() { panicked = recover() }()
	input.NewPickle(&nullDisp{}).Handle(bytesReader(stream))
	return nil
}

func TestPropPickleBytes(t *testing.T) {
	rec := ev.Get("pickle_bytes")
	rapid.Check(t, func(t *rapid.T) {
		var stream []byte
		for i, n := 0, rapid.IntRange(1, 3).Draw(t, "nframes"); i < n; i++ {
			seed, _ := hex.DecodeString(rapid.SampledFrom(pickleSeeds).Draw(t, "seed"))
			p := append([]byte(nil), seed...)
			switch rapid.IntRange(0, 5).Draw(t, "mut") {
			case 0: // flip bytes
				for j, k := 0, rapid.IntRange(1, 4).Draw(t, "nflip"); j < k && len(p) > 0; j++ {
					p[rapid.IntRange(0, len(p)-1).Draw(t, "pos")] = rapid.Byte().Draw(t, "b")
				}
			case 1: // truncate
				p = p[:rapid.IntRange(0, len(p)).Draw(t, "cut")]
			case 2: // insert hostile opcodes / huge lengths
				ins := rapid.SampledFrom([][]byte{{0x8a, 0xff}, {0x8b, 0xff, 0xff, 0xff, 0x7f}, {'T', 0xff, 0xff, 0xff, 0x7f}, {'X', 0xff, 0xff, 0xff, 0xff}, {'h', 0xff}, {'j', 0xff, 0xff, 0xff, 0x7f}, {'0'}, {'2'}, {'1'}, {'t'}, {'a'}, {'e'}, {'s'}, {'u'}, {'b'}, {'R'}, {'o'}, {0x85}, {0x86}, {0x87}, {'d'}, {'('}, {'.'}, {0x95, 0xff, 0xff, 0xff, 0xff, 0xff, 0xff, 0xff, 0x7f}, {'I', '\n'}, {'L', 'x', '\n'}, {'F', '\n'}, {'S', '\'', '\n'}, {'V', '\\', 'u', '\n'}, {'g', '9', '\n'}, {'p', '-', '1', '\n'}, {0x94}, {'c', 'o', 's', '\n', 's', 'y', 's', 't', 'e', 'm', '\n'}}).Draw(t, "ins")
				pos := rapid.IntRange(0, len(p)).Draw(t, "inspos")
				p = append(p[:pos:pos], append(ins, p[pos:]...)...)
			case 3: // random payload
				p = rapid.SliceOfN(rapid.Byte(), 0, 60).Draw(t, "rand")
			case 4: // keep a valid prefix for the protocol check, then random
				p = append(p[:min(3, len(p)):min(3, len(p))], rapid.SliceOfN(rapid.Byte(), 0, 40).Draw(t, "tail")...)
			}
			f := frame(p)
			if rapid.IntRange(0, 5).Draw(t, "lenmut") == 0 {
				binary.BigEndian.PutUint32(f, rapid.Uint32().Draw(t, "len"))
			}
			stream = append(stream, f...)
		}
		if pn := handlePickle(stream); pn != nil {
			t.Fatalf("the pickle handler panics on the byte stream %x: %v", stream, pn)
		}
		rec.Case(fmt.Sprintf("%x", stream), len(stream) > 8)
	})
}

func TestPropPlainBytes(t *testing.T) {
	rec := ev.Get("plain_bytes")
	tab := h.NewTable(true)
	tab.AddRoute(h.NewCaptureRoute("cap", matcher.Matcher{}))
	rapid.Check(t, func(t *rapid.T) {
		var stream []byte
		if rapid.Bool().Draw(t, "structured") {
			stream = []byte(genPlain(t))
		} else {
			stream = rapid.SliceOfN(rapid.Byte(), 0, 200).Draw(t, "bytes")
		}
		var pn interface{}
		func() {
			defer func() { pn = recover() }()
			input.NewPlain(tab).Handle(bytesReader(stream))
		}()
		if pn != nil {
			t.Fatalf("the plain-text input panics on %q: %v", stream, pn)
		}
		rec.Case(fmt.Sprintf("%x", stream), len(stream) > 4)
	})
}

// absurdLength: some position holds a length-prefixed pickle opcode announcing more than 16 MiB.
func absurdLength(b []byte) bool {
	for i := 0; i+5 <= len(b); i++ {
		switch b[i] {
		case 'T', 'B', 'X', 0x8b: // BINSTRING, BINBYTES, BINUNICODE, LONG4: 4-byte little-endian length
			if binary.LittleEndian.Uint32(b[i+1:]) > 16<<20 {
				return true
			}
		case 0x8d, 0x8e, 0x96: // BINUNICODE8, BINBYTES8, BYTEARRAY8: 8-byte length
			if i+9 <= len(b) && binary.LittleEndian.Uint64(b[i+1:]) > 16<<20 {
				return true
			}
		}
	}
	return false
}

func FuzzPickleHandle(f *testing.F) {
	for _, s := range pickleSeeds {
		b, _ := hex.DecodeString(s)
		f.Add(frame(b))
	}
	f.Add([]byte{0, 0, 0, 3, 0x80, 2, ']'})
	f.Fuzz(func(t *testing.T, stream []byte) {
		if len(stream) >= 4 && binary.BigEndian.Uint32(stream) > 1<<20 {
			t.Skip() // announced payloads beyond 1 MiB only make the handler wait for more data
		}
		if absurdLength(stream) {
			// og-rek allocates (and zeroes) what a BINSTRING/BINBYTES/BINUNICODE/LONG4 opcode announces before it reads:
			// a 38-byte frame can cost gigabytes and >10 s of one goroutine.  That is time and memory of one
			// connection, not a panic or an exit; the fuzz worker, however, is killed for it ("hung") and the campaign
			// would end on the first such input.  Excluded by construction (observation noted in DESIGN.md 6.1).
			t.Skip()
		}
		if pn := handlePickle(stream); pn != nil {
			t.Fatalf("the pickle handler panics on %x: %v", stream, pn)
		}
	})
}
