package c14

import (
	"fmt"
	"runtime/debug"
	"strings"
	"testing"

	"github.com/grafana/carbon-relay-ng/imperatives"
	"pgregory.net/rapid"

	"verifharness/internal/ev"
	"verifharness/internal/gen"
	"verifharness/internal/h"
)

// TestPropFilterValues runs in-process (no sizes or endpoints that could hurt the harness are involved) so that
// thousands of admin commands per second can be tried: every place that takes a filter or a pattern -- blacklist entries,
// rewriters, aggregations, routes, destinations, modRoute, modDest -- is given values from a valid-regex grammar, from
// a grammar-free soup of regex metacharacters, and plain fragments; afterwards lines are dispatched so that the
// accepted filters are evaluated.  Oracle: every command returns (ok or error) and every dispatch returns; a panic
// anywhere is the crash C14 forbids (a panic in a relay goroutine ends this test process, which the driver reports).
func TestPropFilterValues(t *testing.T) {
	rec := ev.Get("filter_values")
	rapid.Check(t, func(t *rapid.T) {
		tab := h.NewTable(false)
		defer func() {
			tab.Shutdown()
			for tab.DelAggregator(0) == nil {
			}
		}()
		soups := 0
		val := func(label string) string {
			switch rapid.IntRange(0, 5).Draw(t, label+".kind") {
			case 0, 1, 2:
				soups++
				return gen.RegexSoup(t, label)
			case 3:
				return gen.Regex(t, label)
			case 4:
				return gen.Frag(t, label)
			default:
				return ""
			}
		}
		fopts := func(label string) string {
			var parts []string
			for _, k := range []string{"prefix", "notPrefix", "sub", "notSub", "regex", "notRegex"} {
				if rapid.IntRange(0, 3).Draw(t, label+"."+k+"?") == 0 {
					parts = append(parts, k+"="+val(label+"."+k))
				}
			}
			return strings.Join(parts, " ")
		}
		var routes []string
		var cmds []string
		accepted, refused := 0, 0
		run := func(what string, f func() error) {
			defer func() {
				if r := recover(); r != nil {
					t.Fatalf("%s crashed the relay: panic: %v\ncommands so far: %q\n%s", what, r, cmds, debug.Stack())
				}
			}()
			if err := f(); err != nil {
				refused++
			} else {
				accepted++
			}
		}
		n := rapid.IntRange(1, 5).Draw(t, "ncmds")
		for i := 0; i < n; i++ {
			var cmd string
			switch k := rapid.IntRange(0, 6).Draw(t, "cmd"); {
			case k == 0:
				cmd = "addBlack " + rapid.SampledFrom([]string{"prefix", "notPrefix", "sub", "notSub", "regex", "notRegex"}).Draw(t, "bk") + " " + val("black")
			case k == 1:
				cmd = "addRewriter /" + val("rw") + "/ " + rapid.SampledFrom([]string{"x", "${1}", ""}).Draw(t, "new") + " " + rapid.SampledFrom([]string{"-1", "1"}).Draw(t, "max")
			case k == 2:
				cmd = "addAgg " + rapid.SampledFrom([]string{"sum", "avg", "last"}).Draw(t, "fn") + " regex=" + val("aggre")
				if o := fopts("aggf"); o != "" {
					cmd += " " + o
				}
				cmd += " agg.$1 10 20" + rapid.SampledFrom([]string{"", " cache=true", " cache=false", " dropRaw=true"}).Draw(t, "aggopt")
			case k == 3 || len(routes) == 0:
				key := fmt.Sprintf("rk%d", len(routes))
				cmd = "addRoute " + rapid.SampledFrom([]string{"sendAllMatch", "sendFirstMatch"}).Draw(t, "rtype") + " " + key
				if o := fopts("rf"); o != "" {
					cmd += " " + o
				}
				cmd += "  127.0.0.1:1"
				if o := fopts("df"); o != "" {
					cmd += " " + o
				}
				cmd += " spool=false"
				routes = append(routes, key)
			case k == 4:
				cmd = "modRoute " + rapid.SampledFrom(routes).Draw(t, "mk") + " " + rapid.SampledFrom([]string{"prefix", "notPrefix", "sub", "notSub", "regex", "notRegex"}).Draw(t, "mo") + "=" + val("modr")
			default:
				cmd = "modDest " + rapid.SampledFrom(routes).Draw(t, "mk") + " 0 " + rapid.SampledFrom([]string{"prefix", "notPrefix", "sub", "notSub", "regex", "notRegex"}).Draw(t, "mo") + "=" + val("modd")
			}
			cmds = append(cmds, cmd)
			run(fmt.Sprintf("command %q", cmd), func() error { return imperatives.Apply(tab, cmd) })
		}
		nl := rapid.IntRange(2, 6).Draw(t, "nlines")
		for i := 0; i < nl; i++ {
			line := gen.Name(t, "name") + " 1 1500000000"
			run(fmt.Sprintf("dispatching %q", line), func() error { tab.Dispatch([]byte(line)); return nil })
		}
		rec.Case(strings.Join(cmds, " ; "), soups > 0 && accepted > nl && refused > 0, fmt.Sprintf("accepted-cmds>0=%v", accepted > nl), fmt.Sprintf("refused>0=%v", refused > 0))
	})
}
