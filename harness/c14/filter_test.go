package c14

import (
	"fmt"
	"runtime/debug"
	"strings"
	"sync"
	"testing"
	"time"

	"github.com/grafana/carbon-relay-ng/imperatives"
	"github.com/grafana/carbon-relay-ng/validate"
	m20 "github.com/metrics20/go-metrics20/carbon20"
	"pgregory.net/rapid"

	"verifharness/internal/ev"
	"verifharness/internal/gen"
	"verifharness/internal/h"
)

// TestPropFilterValues runs in-process (no sizes or endpoints that could hurt the harness are involved) so that
// thousands of admin commands per second can be tried: every place that takes a filter or a pattern -- blacklist entries,
// rewriters, aggregations, routes, destinations, modRoute, modDest -- is given values from a valid-regex grammar, from
// a grammar-free soup of regex metacharacters, and plain fragments; afterwards lines are dispatched so that the
// accepted filters are evaluated.  Oracle: every command returns (ok or error) and every dispatch returns; a panic
// anywhere is the crash C14 forbids (a panic in a relay goroutine ends this test process, which the driver reports).
func TestPropFilterValues(t *testing.T) {
	rec := ev.Get("filter_values")
	rapid.Check(t, func(t *rapid.T) {
		// validation level none: every name reaches the filters (what a relay configured that way does)
		tab := h.NewTableLevels(validate.LevelLegacy{Level: m20.NoneLegacy}, validate.LevelM20{Level: m20.NoneM20}, false)
		defer func() {
			tab.Shutdown()
			for tab.DelAggregator(0) == nil {
			}
		}()
		soups := 0
		var used []string // values that may have become regexes of accepted filters: matching names are derived from them
		val := func(label string) string {
			switch rapid.IntRange(0, 5).Draw(t, label+".kind") {
			case 0, 1, 2:
				soups++
				v := gen.RegexSoup(t, label)
				used = append(used, v)
				return v
			case 3:
				v := gen.Regex(t, label)
				used = append(used, v)
				return v
			case 4:
				return gen.Frag(t, label)
			default:
				return ""
			}
		}
		fopts := func(label string) string {
			var parts []string
			for _, k := range []string{"prefix", "notPrefix", "sub", "notSub", "regex", "notRegex"} {
				if rapid.IntRange(0, 3).Draw(t, label+"."+k+"?") == 0 {
					parts = append(parts, k+"="+val(label+"."+k))
				}
			}
			return strings.Join(parts, " ")
		}
		var routes []string
		var cmds []string
		accepted, refused := 0, 0
		run := func(what string, f func() error) {
			defer func() {
				if r := recover(); r != nil {
					t.Fatalf("%s crashed the relay: panic: %v\ncommands so far: %q\n%s", what, r, cmds, debug.Stack())
				}
			}()
			if err := f(); err != nil {
				refused++
			} else {
				accepted++
			}
		}
		n := rapid.IntRange(1, 5).Draw(t, "ncmds")
		for i := 0; i < n; i++ {
			var cmd string
			switch k := rapid.IntRange(0, 6).Draw(t, "cmd"); {
			case k == 0:
				cmd = "addBlack " + rapid.SampledFrom([]string{"prefix", "notPrefix", "sub", "notSub", "regex", "notRegex"}).Draw(t, "bk") + " " + val("black")
			case k == 1:
				cmd = "addRewriter /" + val("rw") + "/ " + rapid.SampledFrom([]string{"x", "${1}", ""}).Draw(t, "new") + " " + rapid.SampledFrom([]string{"-1", "1"}).Draw(t, "max")
			case k == 2:
				cmd = "addAgg " + rapid.SampledFrom([]string{"sum", "avg", "last"}).Draw(t, "fn") + " regex=" + val("aggre")
				if o := fopts("aggf"); o != "" {
					cmd += " " + o
				}
				cmd += " " + rapid.SampledFrom([]string{"agg.$1", "agg.$1", "$1", "${1}x.$2", "agg.$2.$1", "agg.$9", "agg.$name", "agg.$$1", "agg", "$0"}).Draw(t, "aggfmt") + " " +
					rapid.SampledFrom([]string{"10 20", "1 1", "60 5"}).Draw(t, "aggtiming") + rapid.SampledFrom([]string{"", " cache=true", " cache=false", " dropRaw=true"}).Draw(t, "aggopt")
			case k == 3 || len(routes) == 0:
				key := fmt.Sprintf("rk%d", len(routes))
				cmd = "addRoute " + rapid.SampledFrom([]string{"sendAllMatch", "sendFirstMatch"}).Draw(t, "rtype") + " " + key
				if o := fopts("rf"); o != "" {
					cmd += " " + o
				}
				cmd += "  127.0.0.1:1"
				if o := fopts("df"); o != "" {
					cmd += " " + o
				}
				cmd += " spool=false"
				routes = append(routes, key)
			case k == 4:
				cmd = "modRoute " + rapid.SampledFrom(routes).Draw(t, "mk") + " " + rapid.SampledFrom([]string{"prefix", "notPrefix", "sub", "notSub", "regex", "notRegex"}).Draw(t, "mo") + "=" + val("modr")
			default:
				cmd = "modDest " + rapid.SampledFrom(routes).Draw(t, "mk") + " 0 " + rapid.SampledFrom([]string{"prefix", "notPrefix", "sub", "notSub", "regex", "notRegex"}).Draw(t, "mo") + "=" + val("modd")
			}
			cmds = append(cmds, cmd)
			run(fmt.Sprintf("command %q", cmd), func() error { return imperatives.Apply(tab, cmd) })
		}
		nl := rapid.IntRange(2, 6).Draw(t, "nlines")
		for i := 0; i < nl; i++ {
			name := gen.Name(t, "name")
			if len(used) > 0 && rapid.Bool().Draw(t, "matching") {
				// a name that (very likely) matches one of the patterns in play: optional groups are left out or
				// filled at random, so capture groups that exist but did not take part in the match occur
				name = gen.CleanName(gen.SampleMatch(t, rapid.SampledFrom(used).Draw(t, "from")))
			}
			ts := int64(1500000000)
			if rapid.Bool().Draw(t, "now") {
				ts = time.Now().Unix() // (aggregations only look at points inside their window)
			}
			line := fmt.Sprintf("%s 1 %d", name, ts)
			run(fmt.Sprintf("dispatching %q", line), func() error { tab.Dispatch([]byte(line)); return nil })
		}
		// one case in eight: the same kind of lines from four input connections at once, each with fresh names of its own
		// (what the relay keeps per name or per filter is then read and written from several goroutines)
		burst := rapid.IntRange(0, 7).Draw(t, "concurrent-burst") == 0
		if burst {
			var names []string
			for i := 0; i < 3; i++ {
				name := gen.Name(t, "bname")
				if len(used) > 0 && rapid.Bool().Draw(t, "bmatching") {
					name = gen.CleanName(gen.SampleMatch(t, rapid.SampledFrom(used).Draw(t, "bfrom")))
				}
				names = append(names, name)
			}
			crashed := make(chan string, 8)
			var wg sync.WaitGroup
			for g := 0; g < 4; g++ {
				wg.Add(1)
				go func(g int) {
					defer wg.Done()
					defer func() {
						if r := recover(); r != nil {
							crashed <- fmt.Sprintf("panic: %v\n%s", r, debug.Stack())
						}
					}()
					for r := 0; r < 60; r++ {
						for _, n := range names {
							tab.Dispatch([]byte(fmt.Sprintf("%s.g%d.%d 1 %d", n, g, r, time.Now().Unix())))
						}
					}
				}(g)
			}
			wg.Wait()
			select {
			case c := <-crashed:
				t.Fatalf("concurrent input (4 connections, names derived from %q) crashed the relay: %s\ncommands so far: %q", names, c, cmds)
			default:
			}
		}
		rec.Class(fmt.Sprintf("concurrent-burst=%v", burst), 1)
		rec.Case(strings.Join(cmds, " ; "), soups > 0 && accepted > nl && refused > 0, fmt.Sprintf("accepted-cmds>0=%v", accepted > nl), fmt.Sprintf("refused>0=%v", refused > 0))
	})
}
