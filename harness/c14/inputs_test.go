package c14

import (
	"fmt"
	"net"
	"sync"
	"testing"
	"time"

	"github.com/grafana/carbon-relay-ng/cfg"
	"github.com/grafana/carbon-relay-ng/input"
	"github.com/grafana/carbon-relay-ng/matcher"
	"github.com/streadway/amqp"
	"pgregory.net/rapid"

	"verifharness/internal/ev"
	"verifharness/internal/h"
)

type nopCloser struct{}

func (nopCloser) Close() error { return nil }

var (
	amqpOnce     sync.Once
	amqpDelivery chan amqp.Delivery
)

// TestPropDatagramAndAMQPBytes: the two remaining inputs.  A UDP datagram is handed to the listener's datagram
// handler (synchronously: panics are recovered and reported with the datagram); an AMQP message body is handed to the
// real consumer loop through the verif-tagged delivery channel (the consumer runs in its own goroutine, as in the relay:
// a panic there ends this test process, which the driver reports as the crash).  Both dispatch into a real table with
// order validation on.  Streams: structured metric text with mutations, or arbitrary bytes up to 9000 bytes
// (beyond the 4096-byte reader of the AMQP consumer).
func TestPropDatagramAndAMQPBytes(t *testing.T) {
	rec := ev.Get("datagram_amqp_bytes")
	tab := h.NewTable(true)
	tab.AddRoute(h.NewCaptureRoute("cap", matcher.Matcher{}))
	l := input.NewListener("127.0.0.1:0", time.Second, input.NewPlain(tab))
	amqpOnce.Do(func() {
		amqpDelivery = make(chan amqp.Delivery)
		a := input.NewAMQP(cfg.NewConfig(), tab, func(a *input.Amqp) error {
			a.VerifSetDelivery(amqpDelivery, nopCloser{}, nopCloser{})
			return nil
		})
		a.Start()
	})
	rapid.Check(t, func(t *rapid.T) {
		var stream []byte
		switch rapid.IntRange(0, 3).Draw(t, "shape") {
		case 0:
			stream = []byte(genPlain(t))
		case 1:
			stream = rapid.SliceOfN(rapid.Byte(), 0, 300).Draw(t, "bytes")
		case 2:
			// long lines around the 4096-byte reader and 8 KB datagram sizes
			n := rapid.SampledFrom([]int{4095, 4096, 4097, 8191, 8192, 9000}).Draw(t, "len")
			fill := rapid.SampledFrom([]byte{'a', ' ', '\n', '\r', 0, 0xff, '.'}).Draw(t, "fill")
			stream = make([]byte, n)
			for i := range stream {
				stream[i] = fill
			}
			copy(stream, genPlain(t))
		default:
			stream = append([]byte(genPlain(t)), rapid.SliceOfN(rapid.Byte(), 0, 40).Draw(t, "tail")...)
		}
		kind := rapid.SampledFrom([]string{"udp", "amqp"}).Draw(t, "input")
		if kind == "udp" {
			var pn interface{}
			func() {
				defer func() { pn = recover() }()
				l.HandleData(l, stream, &net.UDPAddr{IP: net.IPv4(127, 0, 0, 1), Port: 1})
			}()
			if pn != nil {
				t.Fatalf("the UDP input panics on datagram %q: %v", stream, pn)
			}
		} else {
			amqpDelivery <- amqp.Delivery{Body: stream}
			amqpDelivery <- amqp.Delivery{Body: nil} // accepted only after the previous body has been fully processed
		}
		rec.Case(fmt.Sprintf("%s %x", kind, stream), len(stream) > 4, "input="+kind)
	})
}
