package c14

import (
	"crypto/md5"
	"fmt"
	"runtime/debug"
	"sync"
	"testing"

	"github.com/grafana/carbon-relay-ng/imperatives"
	"pgregory.net/rapid"

	"verifharness/internal/ev"
	"verifharness/internal/h"
)

var (
	posOnce  sync.Once
	posNames [65536]string
)

// a valid metric name for every 16-bit ring position (first two MD5 bytes)
func buildPosNames() {
	left := 65536
	for i := 0; left > 0; i++ {
		n := fmt.Sprintf("c14.srv%d.cpu.load", i)
		s := md5.Sum([]byte(n))
		p := int(s[0])<<8 | int(s[1])
		if posNames[p] == "" {
			posNames[p] = n
			left--
		}
	}
}

// TestPropEveryRingPosition: traffic is "arbitrary metric traffic", and for a consistent-hashing route what matters about a
// name is where it lands on the ring.  A table with a consistentHashing route (2-6 destinations, with and without
// instances, optionally filtered) plus routes of the other types is given one metric for EVERY 16-bit ring position
// (names precomputed once), first in ascending order of position, then the extremes again after a destination was
// removed and one added.  Oracle: no dispatch panics (recovered here and reported with the name and its position).
func TestPropEveryRingPosition(t *testing.T) {
	posOnce.Do(buildPosNames)
	rec := ev.Get("every_ring_position")
	rapid.Check(t, func(t *rapid.T) {
		tab := h.NewTable(false)
		defer tab.Shutdown()
		nd := rapid.IntRange(2, 6).Draw(t, "ndest")
		cmd := "addRoute consistentHashing ch"
		if rapid.IntRange(0, 3).Draw(t, "filtered") == 0 {
			cmd += " prefix=c14."
		}
		for i := 0; i < nd; i++ {
			cmd += fmt.Sprintf("  127.0.0.%d:1", 1+i)
			if rapid.Bool().Draw(t, "inst") {
				cmd += fmt.Sprintf(":i%d", i)
			}
			cmd += " spool=false"
		}
		cmds := []string{cmd}
		if rapid.Bool().Draw(t, "other") {
			cmds = append(cmds, "addRoute "+rapid.SampledFrom([]string{"sendAllMatch", "sendFirstMatch"}).Draw(t, "otype")+" other  127.0.0.9:1 spool=false  127.0.0.10:1 prefix=c14.srv1 spool=false")
		}
		for _, c := range cmds {
			if err := imperatives.Apply(tab, c); err != nil {
				t.Fatalf("HARNESS-ERROR: %q refused: %v", c, err)
			}
		}
		send := func(p int, when string) {
			defer func() {
				if r := recover(); r != nil {
					t.Fatalf("dispatching %q (ring position %d) %s crashed the relay: panic: %v\ncommands: %q\n%s", posNames[p], p, when, r, cmds, debug.Stack())
				}
			}()
			tab.Dispatch([]byte(posNames[p] + " 1 1500000000"))
		}
		for p := 0; p < 65536; p++ {
			send(p, "with the table as configured")
		}
		if nd > 1 {
			if err := tab.DelDestination("ch", rapid.IntRange(0, nd-1).Draw(t, "del")); err != nil {
				t.Fatalf("HARNESS-ERROR: DelDestination: %v", err)
			}
			for _, p := range []int{0, 1, 255, 256, 32767, 32768, 65279, 65280, 65534, 65535} {
				send(p, "after a destination was removed")
			}
		}
		rec.Case(fmt.Sprintf("%q", cmds), nd >= 3, fmt.Sprintf("ndest=%d", nd))
		rec.Num("metrics_dispatched", 65536)
	})
}
