package c14

import "bytes"

func bytesReader(b []byte) *bytes.Reader { return bytes.NewReader(b) }
