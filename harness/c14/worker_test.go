package c14

import (
	"bufio"
	"bytes"
	"encoding/hex"
	"encoding/json"
	"errors"
	"fmt"
	"net"
	"os"
	"path/filepath"
	"strconv"
	"strings"
	"sync"
	"testing"
	"time"

	"github.com/BurntSushi/toml"
	"github.com/grafana/carbon-relay-ng/aggregator"
	"github.com/grafana/carbon-relay-ng/cfg"
	"github.com/grafana/carbon-relay-ng/input"
	"github.com/grafana/carbon-relay-ng/table"
	uitelnet "github.com/grafana/carbon-relay-ng/ui/telnet"
	"github.com/grafana/carbon-relay-ng/validate"
	m20 "github.com/metrics20/go-metrics20/carbon20"
)

// caseT is what the parent sends to the worker: one relay life, in order.
type caseT struct {
	Steps    []string `json:"steps"` // admin commands, or "!toml <hex>", "!deldest <key> <idx>", "!view", "!plain <hex>", "!pickle <hex>", "!sleep <ms>"
	SettleMs int      `json:"settle_ms"`
}

type replyT struct {
	Accepted int      `json:"accepted"`
	Rejected int      `json:"rejected"`
	Errors   []string `json:"errors,omitempty"`
}

// TestC14Worker is the child process: a relay-like process that applies cases read from stdin.
// It deliberately recovers from nothing: a panic anywhere kills it, which is what the parent looks for.
func TestC14Worker(t *testing.T) {
	if os.Getenv("VERIF_C14_WORKER") == "" {
		t.Skip("worker mode only")
	}
	dir := os.Getenv("VERIF_C14_DIR")
	os.MkdirAll(filepath.Join(dir, "spool"), 0755)
	os.WriteFile(filepath.Join(dir, "schemas.conf"), []byte("[default]\npattern = .*\nretentions = 10s:1d\n"), 0644)
	os.WriteFile(filepath.Join(dir, "bad-schemas.conf"), []byte("[zero]\npattern = ^zero\nretentions = 0s:1d\n[default]\npattern = .*\nretentions = 10s:1d\n"), 0644)
	os.WriteFile(filepath.Join(dir, "aggregation.conf"), []byte("[default]\npattern = .*\nxFilesFactor = 0.5\naggregationMethod = average\n"), 0644)
	// a live sink so that connection-time code of destinations runs
	ln, err := net.Listen("tcp", "127.0.0.1:0")
	if err != nil {
		fmt.Println("WORKER-ERROR", err)
		return
	}
	var conns []net.Conn
	go func() {
		for {
			c, err := ln.Accept()
			if err != nil {
				return
			}
			conns = append(conns, c)
			go func() {
				b := make([]byte, 65536)
				for {
					if _, err := c.Read(b); err != nil {
						return
					}
				}
			}()
		}
	}()
	// a tiny http endpoint for grafanaNet routes
	hl, _ := net.Listen("tcp", "127.0.0.1:0")
	go func() {
		for {
			c, err := hl.Accept()
			if err != nil {
				return
			}
			go func() {
				br := bufio.NewReader(c)
				for {
					// read request head, ignore body framing subtleties: answer 200 and close
					for {
						l, err := br.ReadString('\n')
						if err != nil || l == "\r\n" {
							break
						}
					}
					c.Write([]byte("HTTP/1.1 200 OK\r\nContent-Length: 2\r\nConnection: close\r\n\r\n{}"))
					c.Close()
					return
				}
			}()
		}
	}()
	aggregator.InitMetrics()
	newCfg := func() table.TableConfig {
		c, _ := table.NewTableConfig(filepath.Join(dir, "spool"), "1h", validate.LevelLegacy{Level: m20.MediumLegacy}, validate.LevelM20{Level: m20.NoneM20}, false)
		return c
	}
	tab := table.New(newCfg())
	// the real TCP admin interface (ui/telnet on top of the telnet package), and one client connection to it
	pl, _ := net.Listen("tcp", "127.0.0.1:0")
	adminAddr := pl.Addr().String()
	pl.Close()
	go uitelnet.Start(adminAddr, tab)
	var adm net.Conn
	for i := 0; i < 400; i++ {
		if adm, err = net.Dial("tcp", adminAddr); err == nil {
			break
		}
		time.Sleep(5 * time.Millisecond)
	}
	if adm == nil {
		fmt.Println("WORKER-ERROR admin port", err)
		return
	}
	const banner = "inspecting status is fine, but making changes on-the-fly is an experimental feature\n"
	admBuf := make([]byte, 1<<16)
	// readReply reads what the admin port answers up to and including the next prompt line
	readReply := func() (string, error) {
		var acc []byte
		for {
			adm.SetReadDeadline(time.Now().Add(20 * time.Second))
			n, err := adm.Read(admBuf)
			acc = append(acc, admBuf[:n]...)
			if bytes.HasSuffix(acc, []byte(banner)) {
				return string(acc[:len(acc)-len(banner)]), nil
			}
			if err != nil {
				return string(acc), err
			}
		}
	}
	if _, err := readReply(); err != nil {
		fmt.Println("WORKER-ERROR admin banner", err)
		return
	}
	// admin sends raw bytes the way an operator's client would (one write) and returns the reply text
	admin := func(raw []byte) (string, error) {
		if _, err := adm.Write(raw); err != nil {
			return "", err
		}
		rep, err := readReply()
		if err != nil {
			return rep, err
		}
		if len(raw) > 1000 {
			// the port reads at most 1024 bytes at a time: a long line is taken as several commands; collect the other replies
			for {
				adm.SetReadDeadline(time.Now().Add(50 * time.Millisecond))
				n, err := adm.Read(admBuf)
				rep += string(admBuf[:n])
				if err != nil {
					break
				}
			}
		}
		return rep, nil
	}
	in := bufio.NewReaderSize(os.Stdin, 1<<22)
	out := bufio.NewWriter(os.Stdout)
	fmt.Fprintf(out, "READY\n")
	out.Flush()
	repl := strings.NewReplacer("{SINK}", ln.Addr().String(), "{HTTP}", "http://"+hl.Addr().String()+"/metrics", "{DIR}", dir)
	for {
		line, err := in.ReadString('\n')
		if err != nil {
			return
		}
		var c caseT
		if json.Unmarshal([]byte(line), &c) != nil {
			fmt.Fprintf(out, "BADCASE\n")
			out.Flush()
			continue
		}
		// a fresh relay life: forget the previous table content (old routes keep running in the background, like deleted ones would)
		old := tab.Snapshot()
		for _, r := range old.Routes {
			done := make(chan struct{})
			go func(k string) { tab.DelRoute(k); close(done) }(r.Key)
			select {
			case <-done:
			case <-time.After(2 * time.Second):
			}
		}
		tab.VerifReset(newCfg())
		var rep replyT
		for _, st := range c.Steps {
			st = repl.Replace(st)
			var err error
			switch {
			case strings.HasPrefix(st, "!toml "):
				b, _ := hex.DecodeString(st[6:])
				conf := cfg.NewConfig()
				meta, derr := toml.Decode(repl.Replace(string(b)), &conf)
				if derr != nil {
					err = derr
				} else {
					err = cfg.InitTable(tab, conf, meta)
				}
			case strings.HasPrefix(st, "!deldest "):
				f := strings.Fields(st)
				idx, _ := strconv.Atoi(f[2])
				err = tab.DelDestination(f[1], idx)
			case st == "!view":
				_, err = admin([]byte("view\n"))
			case strings.HasPrefix(st, "!admin "):
				b, _ := hex.DecodeString(st[7:])
				if len(bytes.TrimSpace(b)) == 0 {
					break // (a client that sends nothing gets no reply)
				}
				var reply string
				reply, err = admin(b)
				if err == nil && !strings.HasPrefix(reply, "ok") {
					err = errors.New(strings.TrimSpace(reply))
				}
			case strings.HasPrefix(st, "!plain "):
				b, _ := hex.DecodeString(st[7:])
				err = input.NewPlain(tab).Handle(bytes.NewReader(b))
			case strings.HasPrefix(st, "!plainN "):
				// "!plainN <k> <reps> <hex>": k input connections at once, each sending the text reps times, every line with a
				// name suffix of its own (so that each connection keeps bringing names the relay has not seen yet)
				f := strings.Fields(st)
				k, _ := strconv.Atoi(f[1])
				reps, _ := strconv.Atoi(f[2])
				b, _ := hex.DecodeString(f[3])
				var wg sync.WaitGroup
				for g := 0; g < k; g++ {
					wg.Add(1)
					go func(g int) {
						defer wg.Done()
						var sb bytes.Buffer
						for r := 0; r < reps; r++ {
							for _, l := range bytes.Split(b, []byte("\n")) {
								if i := bytes.IndexByte(l, ' '); i > 0 {
									fmt.Fprintf(&sb, "%s.g%dr%d%s\n", l[:i], g, r, l[i:])
								} else {
									sb.Write(l)
									sb.WriteByte('\n')
								}
							}
						}
						input.NewPlain(tab).Handle(bytes.NewReader(sb.Bytes()))
					}(g)
				}
				wg.Wait()
			case strings.HasPrefix(st, "!pickle "):
				b, _ := hex.DecodeString(st[8:])
				err = input.NewPickle(tab).Handle(bytes.NewReader(b))
			case strings.HasPrefix(st, "!sleep "):
				ms, _ := strconv.Atoi(st[7:])
				time.Sleep(time.Duration(ms) * time.Millisecond)
			default:
				// through the admin port; the reply is "ok" or the error text
				if strings.TrimSpace(st) == "" {
					break
				}
				var reply string
				reply, err = admin([]byte(st + "\n"))
				if err == nil && !strings.HasPrefix(reply, "ok") {
					if len(reply) > 200 {
						reply = reply[:200]
					}
					err = errors.New(strings.TrimSpace(reply))
				}
			}
			if err != nil {
				rep.Rejected++
				if len(rep.Errors) < 3 {
					rep.Errors = append(rep.Errors, err.Error())
				}
			} else {
				rep.Accepted++
			}
		}
		time.Sleep(time.Duration(c.SettleMs) * time.Millisecond)
		b, _ := json.Marshal(rep)
		fmt.Fprintf(out, "OK %s\n", b)
		out.Flush()
	}
}
