// C15 — consistent hashing agrees with Carbon and moves only the keys it must.
package c15

import (
	"bytes"
	"crypto/md5"
	"fmt"
	"os"
	"sort"
	"strings"
	"testing"
	"time"

	dest "github.com/grafana/carbon-relay-ng/destination"
	"github.com/grafana/carbon-relay-ng/matcher"
	"github.com/grafana/carbon-relay-ng/route"
	"pgregory.net/rapid"

	"verifharness/internal/ep"
	"verifharness/internal/ev"
	"verifharness/internal/h"
	"verifharness/internal/pyh"
)

var pyRing *pyh.Server
var pyRingName string

func TestMain(m *testing.M) {
	h.Init()
	buildPosTable()
	for _, p := range []string{pyh.Python2(), pyh.Python3()} {
		if p == "" {
			continue
		}
		s, err := pyh.StartScript(p, "carbon_ring.py")
		if err == nil {
			pyRing, pyRingName = s, p
			break
		}
	}
	if pyRing == nil {
		fmt.Println("HARNESS-ERROR: no python interpreter for carbon_ring.py")
		os.Exit(2)
	}
	ev.Get("hasher_vs_carbon").Note("python", pyRingName)
	code := m.Run()
	pyRing.Close()
	ev.Flush()
	os.Exit(code)
}

// ---- reference: carbon 0.9.x ConsistentHashRing, re-implemented ------------------------

type node struct {
	host string
	inst string // "" = None
}

func (n node) String() string {
	if n.inst == "" {
		return fmt.Sprintf("('%s', None)", n.host)
	}
	return fmt.Sprintf("('%s', '%s')", n.host, n.inst)
}

func pos16(key string) int {
	h := md5.Sum([]byte(key))
	return int(h[0])<<8 | int(h[1]) // first 4 hex digits
}

type ringEntry struct {
	pos int
	n   node
}

type refRing struct{ entries []ringEntry }

func less(a, b ringEntry) bool {
	if a.pos != b.pos {
		return a.pos < b.pos
	}
	if a.n.host != b.n.host {
		return a.n.host < b.n.host
	}
	// None sorts before any string; "" stands for None and instances are never empty strings
	return a.n.inst < b.n.inst
}

func newRefRing(nodes []node) *refRing {
	r := &refRing{}
	for _, n := range nodes {
		for i := 0; i < 100; i++ {
			e := ringEntry{pos16(fmt.Sprintf("%s:%d", n, i)), n}
			// bisect.insort
			idx := sort.Search(len(r.entries), func(j int) bool { return less(e, r.entries[j]) })
			r.entries = append(r.entries, ringEntry{})
			copy(r.entries[idx+1:], r.entries[idx:])
			r.entries[idx] = e
		}
	}
	return r
}

func (r *refRing) get(key string) node {
	p := pos16(key)
	idx := sort.Search(len(r.entries), func(j int) bool { return r.entries[j].pos >= p }) % len(r.entries)
	return r.entries[idx].n
}

func (r *refRing) collisions() []int {
	var ps []int
	for i := 1; i < len(r.entries); i++ {
		if r.entries[i].pos == r.entries[i-1].pos && r.entries[i].n != r.entries[i-1].n {
			ps = append(ps, r.entries[i].pos)
		}
	}
	return ps
}

// ---- names for every ring position ---------------------------------------------------------

var posName [65536]string

func buildPosTable() {
	left := 65536
	for i := 0; left > 0; i++ {
		n := fmt.Sprintf("srv%d.cpu.load", i)
		p := pos16(n)
		if posName[p] == "" {
			posName[p] = n
			left--
		}
	}
}

// ---- generators ---------------------------------------------------------------------------------

// host spellings as an operator may write them: carbon hashes the string as written (case, a trailing dot and all)
var dnsHosts = []string{"carbon-a", "carbon-b.example.com", "graphite01", "a", "b", "carbon-a.example.com", "zz-top", "10.0.0.1", "10.0.0.2", "192.168.1.10", "localhost",
	strings.Repeat("very-long-label.", 7) + "example.com", strings.Repeat("a", 63) + "." + strings.Repeat("b", 63) + "." + strings.Repeat("c", 63) + ".example", // (DNS allows 253)
	"Carbon-A", "GRAPHITE01", "carbon-b.example.com.", "localhost.", "Relay-East", "relay-east", "CamelCase.Example.COM", "host_1", "xn--caf-dma.example"}
var loopHosts = []string{"127.0.0.1", "127.0.0.2", "127.0.10.1", "127.1.1.1", "127.0.0.10", "localhost", "127.9.9.9"}
var numericLoopHosts = []string{"127.0.0.1", "127.0.0.2", "127.0.10.1", "127.1.1.1", "127.0.0.10", "127.9.9.9"}
var insts = []string{"", "", "a", "b", "c", "1", "cache-2", "A", "instance-with-a-rather-long-descriptive-name-0123456789-0123456789-0123456789-0123456789-0123456789-0123456789-0123456789-x"}

type destSpec struct {
	host, port, inst string
}

func (d destSpec) addr() string {
	a := d.host
	if d.port != "" {
		a += ":" + d.port
	}
	if d.inst != "" {
		a += ":" + d.inst // only generated together with a port
	}
	return a
}
func (d destSpec) node() node { return node{d.host, d.inst} }

func genDests(t *rapid.T, hosts []string, max int) []destSpec {
	n := rapid.IntRange(1, max).Draw(t, "ndest")
	seen := map[node]bool{}
	var out []destSpec
	for len(out) < n {
		d := destSpec{host: rapid.SampledFrom(hosts).Draw(t, "host"), inst: rapid.SampledFrom(insts).Draw(t, "inst")}
		if d.inst != "" || rapid.Bool().Draw(t, "withport") {
			d.port = rapid.SampledFrom([]string{"1", "2003", "2004", "2"}).Draw(t, "port")
		}
		if seen[d.node()] {
			continue
		}
		seen[d.node()] = true
		out = append(out, d)
	}
	return out
}

func genKeys(t *rapid.T, r *refRing, n int) ([]string, bool) {
	keys := make([]string, 0, n+40)
	for i := 0; i < n; i++ {
		switch rapid.IntRange(0, 3).Draw(t, "keystyle") {
		case 0:
			keys = append(keys, posName[rapid.IntRange(0, 65535).Draw(t, "pos")])
		case 1:
			keys = append(keys, fmt.Sprintf("stats.%s.%d", rapid.SampledFrom([]string{"a", "web", "db"}).Draw(t, "k1"), rapid.IntRange(0, 100000).Draw(t, "k2")))
		default:
			keys = append(keys, rapid.StringMatching(`[a-z]{1,6}(\.[a-z0-9_-]{1,8}){0,4}`).Draw(t, "key"))
		}
	}
	// targeted: keys exactly on / around collided positions, beyond the last ring position (wrap-around), extremes
	special := false
	add := func(p int) {
		if p >= 0 && p <= 65535 {
			keys = append(keys, posName[p])
		}
	}
	for _, p := range r.collisions() {
		add(p)
		add(p - 1)
		add(p + 1)
		special = true
	}
	last := r.entries[len(r.entries)-1].pos
	if last < 65535 {
		add(last + 1)
		add(65535)
		special = true
	}
	add(last)
	add(0)
	add(r.entries[0].pos)
	return keys, special
}

// ---- (1) the hasher itself, incl. DNS-like host names, vs the reference and CPython -----------------

func pyAssign(nodes []node, keys []string) ([]node, error) {
	type req struct {
		Nodes    [][]interface{} `json:"nodes"`
		Keys     []string        `json:"keys"`
		Replicas int             `json:"replicas"`
	}
	rq := req{Keys: keys, Replicas: 100}
	for _, n := range nodes {
		var inst interface{}
		if n.inst != "" {
			inst = n.inst
		}
		rq.Nodes = append(rq.Nodes, []interface{}{n.host, inst})
	}
	var resp struct {
		Assign [][]*string `json:"assign"`
	}
	if err := pyRing.Call(rq, &resp); err != nil {
		return nil, err
	}
	out := make([]node, len(resp.Assign))
	for i, a := range resp.Assign {
		out[i].host = *a[0]
		if a[1] != nil {
			out[i].inst = *a[1]
		}
	}
	return out, nil
}

func TestPropHasherVsCarbon(t *testing.T) {
	rec := ev.Get("hasher_vs_carbon")
	rapid.Check(t, func(t *rapid.T) {
		specs := genDests(t, dnsHosts, 8)
		nodes := make([]node, len(specs))
		dests := make([]*dest.Destination, len(specs))
		for i, s := range specs {
			nodes[i] = s.node()
			// the same construction path the relay uses (splits addr / instance)
			d, err := dest.New("c15", matcher.Matcher{}, s.addr(), "", false, false, 1e9, 1e9, 1, 1, 1, 1, 1, 1e9, 1, 1)
			if err != nil {
				t.Fatalf("HARNESS-ERROR: %v", err)
			}
			dests[i] = d
		}
		ref := newRefRing(nodes)
		keys, special := genKeys(t, ref, rapid.IntRange(50, 300).Draw(t, "nkeys"))
		hasher := route.NewConsistentHasher(dests)
		// a permutation of the same destinations must give the same (host, instance) per key
		perm := rapid.Permutation(specs).Draw(t, "perm")
		pdests := make([]*dest.Destination, len(perm))
		for i, s := range perm {
			d, _ := dest.New("c15", matcher.Matcher{}, s.addr(), "", false, false, 1e9, 1e9, 1, 1, 1, 1, 1, 1e9, 1, 1)
			pdests[i] = d
		}
		phasher := route.NewConsistentHasher(pdests)
		py, err := pyAssign(nodes, keys)
		if err != nil {
			t.Fatalf("HARNESS-ERROR: %v", err)
		}
		onCollision := false
		coll := map[int]bool{}
		for _, p := range ref.collisions() {
			coll[p] = true
		}
		for i, k := range keys {
			want := ref.get(k)
			if py[i] != want {
				t.Fatalf("HARNESS-ERROR: Go reference ring and CPython transcription disagree for key %q nodes %v: %v vs %v", k, nodes, want, py[i])
			}
			got := specs[hasher.GetDestinationIndex([]byte(k))].node()
			if got != want {
				t.Fatalf("key %q (ring position %d) with destinations %v: relay picks %v, carbon picks %v", k, pos16(k), specs, got, want)
			}
			gotp := perm[phasher.GetDestinationIndex([]byte(k))].node()
			if gotp != want {
				t.Fatalf("key %q: destinations listed as %v give %v, listed as %v give %v", k, perm, gotp, specs, want)
			}
			if coll[pos16(k)] {
				onCollision = true
			}
		}
		wraps := pos16(keys[len(keys)-1]) >= 0 && special
		rec.Case(fmt.Sprintf("%v keys=%d first=%s", specs, len(keys), keys[0]), len(ref.collisions()) > 0 && (onCollision || wraps),
			fmt.Sprintf("ndest=%d", len(specs)), fmt.Sprintf("collisions>0=%v", len(ref.collisions()) > 0), fmt.Sprintf("key-on-collision=%v", onCollision))
		rec.Num("keys", int64(len(keys)))
	})
}

// ---- (2) the real route: which destination accounts for each line; add / remove ---------------------

var routeSeq int

func TestPropRouteAssignAndChurn(t *testing.T) {
	rec := ev.Get("route_assign_churn")
	rapid.Check(t, func(t *rapid.T) {
		routeSeq++
		rkey := "c15r"
		specs := genDests(t, loopHosts, 6)
		mk := func(s destSpec) *dest.Destination {
			d, err := dest.New(rkey, matcher.Matcher{}, s.addr(), "/nonexistent-spool", false, false, 3600e9, 3600e9, 10, 4096, 10, 1000, 1000, 3600e9, 1e6, 1e6)
			if err != nil {
				t.Fatalf("HARNESS-ERROR: %v", err)
			}
			return d
		}
		var dests []*dest.Destination
		for _, s := range specs {
			dests = append(dests, mk(s))
		}
		rt, err := route.NewConsistentHashing(rkey, matcher.Matcher{}, dests)
		if err != nil {
			t.Fatalf("HARNESS-ERROR: %v", err)
		}
		defer rt.Shutdown()
		chr := rt.(*route.ConsistentHashing)
		cur := append([]destSpec(nil), specs...)
		curDests := append([]*dest.Destination(nil), dests...)
		ref := newRefRing(nodesOf(cur))
		keys, _ := genKeys(t, ref, rapid.IntRange(30, 120).Draw(t, "nkeys"))
		// dedupe keys (assignment maps are per key)
		keys = uniq(keys)

		// live[i] != nil: destination i was re-pointed (modDest addr=...) to that listening endpoint and is connected
		live := make([]*ep.Endpoint, len(curDests))
		var allEps []*ep.Endpoint
		defer func() {
			for _, e := range allEps {
				e.Close()
			}
		}()
		assign := func() map[string]node {
			// dispatch each key once and see which destination accounts for it: a refusing destination counts it as
			// dropped (no connection, no spool), a connected one delivers it to its endpoint
			out := map[string]node{}
			for _, k := range keys {
				line := []byte(k + " 1 1500000000")
				seen := func(i int) int64 {
					d := curDests[i]
					n := h.DestDropNoConn(d.Key) + h.Count("dest="+d.Key+".unit=Metric.action=drop.reason=slow_conn")
					if live[i] != nil {
						n += int64(bytes.Count(live[i].All(), append(append([]byte(nil), line...), '\n')))
					}
					return n
				}
				before := make([]int64, len(curDests))
				for i := range curDests {
					before[i] = seen(i)
				}
				rt.Dispatch(line)
				rt.Flush()
				hit := -1
				for deadline := time.Now().Add(10 * time.Second); ; {
					hit = -1
					for i := range curDests {
						switch seen(i) - before[i] {
						case 0:
						case 1:
							if hit >= 0 {
								t.Fatalf("key %q was handed to two destinations (%v and %v)", k, cur[hit], cur[i])
							}
							hit = i
						default:
							t.Fatalf("key %q was handed to %v more than once", k, cur[i])
						}
					}
					if hit >= 0 || time.Now().After(deadline) {
						break
					}
					time.Sleep(200 * time.Microsecond) // a connected destination delivers asynchronously
					rt.Flush()
				}
				if hit < 0 {
					t.Fatalf("key %q was handed to no destination (destinations %v)", k, cur)
				}
				out[k] = cur[hit].node()
			}
			return out
		}
		check := func(a map[string]node, when string) {
			r := newRefRing(nodesOf(cur))
			for _, k := range keys {
				if want := r.get(k); a[k] != want {
					t.Fatalf("%s: key %q (position %d) with destinations %v: relay sent it to %v, carbon would pick %v", when, k, pos16(k), cur, a[k], want)
				}
			}
		}
		a0 := assign()
		check(a0, "initial")
		ops := []string{}
		nops := rapid.IntRange(1, 4).Draw(t, "nops")
		moved := 0
		modded := 0
		for o := 0; o < nops; o++ {
			if rapid.IntRange(0, 3).Draw(t, "mod") == 0 {
				// modDest <route> <idx> addr=host:port[:instance] -- re-point one destination to a listening endpoint
				// (the address only changes when the connection attempt succeeds); the configured set changes, the ring must follow
				i := rapid.IntRange(0, len(cur)-1).Draw(t, "idx")
				var ns destSpec
				for try := 0; ; try++ {
					c := destSpec{host: rapid.SampledFrom(numericLoopHosts).Draw(t, "host"), inst: rapid.SampledFrom(insts).Draw(t, "inst")}
					dup := false
					for j, e := range cur {
						if j != i && e.node() == c.node() {
							dup = true
						}
					}
					if !dup {
						ns = c
						break
					}
					if try > 50 {
						t.Skip("no fresh destination")
					}
				}
				e := ep.NewOn(ns.host + ":0")
				allEps = append(allEps, e)
				ns.port = fmt.Sprint(e.Port)
				old := cur[i].node()
				if err := chr.UpdateDestination(i, map[string]string{"addr": ns.addr()}); err != nil {
					t.Fatalf("UpdateDestination(%d, addr=%s): %v", i, ns.addr(), err)
				}
				if !e.WaitAccept(1, 10*time.Second) {
					t.Fatalf("HARNESS-ERROR: the re-pointed destination did not connect to %s", ns.addr())
				}
				cur = append([]destSpec(nil), cur...)
				cur[i] = ns
				live[i] = e
				modded++
				ops = append(ops, fmt.Sprintf("mod(%v->%v)", old, ns.node()))
				a1 := assign()
				check(a1, strings.Join(ops, ","))
				for _, k := range keys {
					if a0[k] != a1[k] {
						moved++
						if a0[k] != old && a1[k] != ns.node() {
							t.Fatalf("re-pointing %v to %v moved key %q from %v to %v", old, ns.node(), k, a0[k], a1[k])
						}
					}
				}
				a0 = a1
			} else if len(cur) > 1 && rapid.Bool().Draw(t, "remove") {
				i := rapid.IntRange(0, len(cur)-1).Draw(t, "idx")
				removed := cur[i].node()
				if err := chr.DelDestination(i); err != nil {
					t.Fatalf("DelDestination(%d): %v", i, err)
				}
				cur = append(append([]destSpec(nil), cur[:i]...), cur[i+1:]...)
				curDests = append(append([]*dest.Destination(nil), curDests[:i]...), curDests[i+1:]...)
				live = append(append([]*ep.Endpoint(nil), live[:i]...), live[i+1:]...)
				ops = append(ops, fmt.Sprintf("del(%v)", removed))
				a1 := assign()
				check(a1, strings.Join(ops, ","))
				for _, k := range keys {
					if a0[k] != a1[k] {
						moved++
						if a0[k] != removed {
							t.Fatalf("removing %v moved key %q from %v to %v", removed, k, a0[k], a1[k])
						}
					}
				}
				a0 = a1
			} else {
				var ns destSpec
				for try := 0; ; try++ {
					c := genDests(t, loopHosts, 1)[0]
					dup := false
					for _, e := range cur {
						if e.node() == c.node() {
							dup = true
						}
					}
					if !dup {
						ns = c
						break
					}
					if try > 50 {
						t.Skip("no fresh destination")
					}
				}
				nd := mk(ns)
				chr.Add(nd)
				cur = append(cur, ns)
				curDests = append(curDests, nd)
				live = append(live, nil)
				ops = append(ops, fmt.Sprintf("add(%v)", ns.node()))
				a1 := assign()
				check(a1, strings.Join(ops, ","))
				for _, k := range keys {
					if a0[k] != a1[k] {
						moved++
						if a1[k] != ns.node() {
							t.Fatalf("adding %v moved key %q from %v to %v", ns.node(), k, a0[k], a1[k])
						}
					}
				}
				a0 = a1
			}
		}
		rec.Case(fmt.Sprintf("%v ops=%v keys=%d", specs, ops, len(keys)), moved > 0 && len(specs) >= 2, fmt.Sprintf("moved>0=%v", moved > 0), fmt.Sprintf("re-pointed>0=%v", modded > 0))
		rec.Num("keys_dispatched", int64(len(keys)*(nops+1)))
	})
}

func nodesOf(s []destSpec) []node {
	out := make([]node, len(s))
	for i := range s {
		out[i] = s[i].node()
	}
	return out
}

func uniq(ks []string) []string {
	seen := map[string]bool{}
	var out []string
	for _, k := range ks {
		if !seen[k] {
			seen[k] = true
			out = append(out, k)
		}
	}
	return out
}
