// C15 — concurrent senders: the destination is chosen "only by the metric name and the set of (host, instance) pairs
// configured", so it cannot depend on what other input connections hand to the same route at the same moment.
package c15

import (
	"fmt"
	"sync"
	"testing"

	dest "github.com/grafana/carbon-relay-ng/destination"
	"github.com/grafana/carbon-relay-ng/matcher"
	"github.com/grafana/carbon-relay-ng/route"
	"pgregory.net/rapid"

	"verifharness/internal/ev"
	"verifharness/internal/h"
)

func TestPropConcurrentLookup(t *testing.T) {
	rec := ev.Get("concurrent_lookup")
	rapid.Check(t, func(t *rapid.T) {
		routeSeq++
		rkey := "c15c"
		specs := genDests(t, loopHosts, 6)
		var dests []*dest.Destination
		for _, s := range specs {
			d, err := dest.New(rkey, matcher.Matcher{}, s.addr(), "/nonexistent-spool", false, false, 3600e9, 3600e9, 10, 4096, 10, 1000, 1000, 3600e9, 1e6, 1e6)
			if err != nil {
				t.Fatalf("HARNESS-ERROR: %v", err)
			}
			dests = append(dests, d)
		}
		ref := newRefRing(nodesOf(specs))
		senders := rapid.IntRange(2, 8).Draw(t, "senders")
		perSender := rapid.SampledFrom([]int{50, 300, 1500}).Draw(t, "keys-per-sender")
		stem, _ := genKeys(t, ref, 8)
		key := func(g, i int) string { return fmt.Sprintf("%s.s%d.%d.%d", stem[(g+i)%len(stem)], g, i, routeSeq) }

		// (a) the hasher alone: every goroutine's answers must equal the reference ring
		hasher := route.NewConsistentHasher(dests)
		wrong := make(chan string, senders)
		var wg sync.WaitGroup
		for g := 0; g < senders; g++ {
			wg.Add(1)
			go func(g int) {
				defer wg.Done()
				defer func() {
					if r := recover(); r != nil {
						wrong <- fmt.Sprintf("lookup panicked: %v", r)
					}
				}()
				for i := 0; i < perSender; i++ {
					k := key(g, i)
					if got, want := specs[hasher.GetDestinationIndex([]byte(k))].node(), ref.get(k); got != want {
						wrong <- fmt.Sprintf("key %q (position %d): the hasher answered %v while %d lookups ran at once, carbon would pick %v", k, pos16(k), got, senders, want)
						return
					}
				}
			}(g)
		}
		wg.Wait()
		select {
		case w := <-wrong:
			t.Fatalf("%s (destinations %v)", w, specs)
		default:
		}

		// (b) the real route: per-destination hand-off counts after the concurrent senders are done
		rt, err := route.NewConsistentHashing(rkey, matcher.Matcher{}, dests)
		if err != nil {
			t.Fatalf("HARNESS-ERROR: %v", err)
		}
		defer rt.Shutdown()
		rt.Flush()
		before := make([]int64, len(dests))
		for i, d := range dests {
			before[i] = h.DestDropNoConn(d.Key)
		}
		want := make([]int64, len(dests))
		idx := map[node]int{}
		for i, s := range specs {
			idx[s.node()] = i
		}
		for g := 0; g < senders; g++ {
			for i := 0; i < perSender; i++ {
				want[idx[ref.get(key(g, i))]]++
			}
		}
		for g := 0; g < senders; g++ {
			wg.Add(1)
			go func(g int) {
				defer wg.Done()
				defer func() {
					if r := recover(); r != nil {
						wrong <- fmt.Sprintf("dispatch panicked: %v", r)
					}
				}()
				for i := 0; i < perSender; i++ {
					rt.Dispatch([]byte(key(g, i) + " 1 1500000000"))
				}
			}(g)
		}
		wg.Wait()
		select {
		case w := <-wrong:
			t.Fatalf("%s (destinations %v)", w, specs)
		default:
		}
		rt.Flush()
		for i, d := range dests {
			if got := h.DestDropNoConn(d.Key) - before[i]; got != want[i] {
				t.Fatalf("%d senders x %d keys: destination %v was handed %d lines, carbon's ring gives it %d (destinations %v)", senders, perSender, specs[i], got, want[i], specs)
			}
		}
		rec.Case(fmt.Sprintf("%v senders=%d per=%d stem=%s", specs, senders, perSender, stem[0]), len(specs) >= 2, fmt.Sprintf("ndest=%d", len(specs)), fmt.Sprintf("senders=%d", senders))
		rec.Num("keys", int64(2*senders*perSender))
	})
}
