// C16 — re-encoding a line for pickle, grafana.net or Kafka preserves the datapoint.
package c16

import (
	"encoding/binary"
	"encoding/json"
	"fmt"
	"math"
	"os"
	"path/filepath"
	"regexp"
	"sort"
	"strconv"
	"strings"
	"testing"

	dest "github.com/grafana/carbon-relay-ng/destination"
	"github.com/grafana/carbon-relay-ng/route"
	"pgregory.net/rapid"

	"verifharness/internal/ev"
	"verifharness/internal/h"
	"verifharness/internal/pyh"
)

var pys []*pyh.Server
var pyNames []string

func TestMain(m *testing.M) {
	h.Init()
	for _, p := range []string{pyh.Python3(), pyh.Python2()} {
		if p == "" {
			continue
		}
		if s, err := pyh.Start(p); err == nil {
			pys = append(pys, s)
			pyNames = append(pyNames, "cpython-"+s.Version)
		}
	}
	if len(pys) == 0 {
		fmt.Println("HARNESS-ERROR: no python interpreter")
		os.Exit(2)
	}
	ev.Get("pickle_out").Note("interpreters", strings.Join(pyNames, ","))
	code := m.Run()
	for _, p := range pys {
		p.Close()
	}
	ev.Flush()
	os.Exit(code)
}

// ---- shared line generator -------------------------------------------------------------

var goodValues = []string{"1", "0", "-3", "+5", "1e3", "1.5", ".5", "0x1p-2", "1E-2", "123456789.25", "NaN", "Inf", "-Inf", "007", "1.", "5e0", "4.9e-324", "-0", "1e308", "-1.7976931348623157e308"}
var badValues = []string{"1e400", "1_0", "abc", "", "0x", "1,5"}
var goodTs = []string{"0", "1", "1500000000", "4294967295", "007", "60", "1234567890"}
var badTs = []string{"4294967296", "-1", "1.5", "1e9", "+7", "12345678901", "abc", "1500000000.0"}

func drawTok(t *rapid.T, label string, good, bad []string) string {
	if rapid.IntRange(0, 99).Draw(t, label+".bad") < 8 {
		return rapid.SampledFrom(bad).Draw(t, label)
	}
	return rapid.SampledFrom(good).Draw(t, label)
}

func genName(t *rapid.T) (string, []string) {
	base := rapid.SampledFrom([]string{"foo.bar", "foo.bar.baz", "a", "srv.cpu.load", "stats.web-1.requests_total", "foo.barx", "xfoo.bar"}).Draw(t, "base")
	nt := rapid.SampledFrom([]int{0, 0, 0, 1, 2, 3, 4}).Draw(t, "ntags")
	var tags []string
	for i := 0; i < nt; i++ {
		k := rapid.SampledFrom([]string{"dc", "host", "env", "a", "z", "app"}).Draw(t, "tagk")
		v := rapid.SampledFrom([]string{"eu", "us", "web1", "1", "prod", "b"}).Draw(t, "tagv")
		if rapid.IntRange(0, 19).Draw(t, "badtag") == 0 {
			tags = append(tags, rapid.SampledFrom([]string{"novalue=", "=nokey", "noequals", "k!=v", "k=~v", "ab"}).Draw(t, "bad"))
			continue
		}
		tags = append(tags, k+"="+v)
	}
	return base, tags
}

// ---- (a) pickle ---------------------------------------------------------------------------

func TestPropPickleOut(t *testing.T) {
	rec := ev.Get("pickle_out")
	rapid.Check(t, func(t *rapid.T) {
		base, tags := genName(t)
		name := base
		if len(tags) > 0 {
			name += ";" + strings.Join(tags, ";")
		}
		valTok := drawTok(t, "val", goodValues, badValues)
		tsTok := drawTok(t, "ts", goodTs, badTs)
		sep := rapid.SampledFrom([]string{" ", " ", "\t", "  "}).Draw(t, "sep")
		line := name + sep + valTok + sep + tsTok
		wantVal, verr := strconv.ParseFloat(valTok, 64)
		if ne, ok := verr.(*strconv.NumError); ok && ne.Err == strconv.ErrRange {
			verr = ne // out of range: not representable as a float64 value token
		}
		wantTs, terr := strconv.ParseUint(tsTok, 10, 32)
		representable := verr == nil && terr == nil
		dp, err := dest.ParseDataPoint([]byte(line))
		if !representable {
			if err == nil {
				t.Fatalf("line %q cannot be represented (value err %v, timestamp err %v) but ParseDataPoint accepted it as %+v", line, verr, terr, dp)
			}
			rec.Case(line, false, "unrepresentable")
			return
		}
		if err != nil {
			t.Fatalf("line %q is representable but ParseDataPoint refused it: %v", line, err)
		}
		msg := dest.Pickle(dp)
		if len(msg) < 4 || int(binary.BigEndian.Uint32(msg)) != len(msg)-4 {
			t.Fatalf("line %q: pickle message is not [4-byte BE length][payload]: % x", line, msg)
		}
		for i, py := range pys {
			obj, pyErr, herr := py.Loads(msg[4:])
			if herr != nil {
				t.Fatalf("HARNESS-ERROR: %v", herr)
			}
			if pyErr != "" {
				t.Fatalf("line %q: %s cannot unpickle the payload % x: %s", line, pyNames[i], msg[4:], pyErr)
			}
			gotName, gotTs, gotVal, derr := decodeDatapointList(obj)
			if derr != nil {
				t.Fatalf("line %q: %s unpickles to something that is not [(name,(ts,value))]: %v", line, pyNames[i], derr)
			}
			if gotName != name {
				t.Fatalf("line %q: unpickled name %q want %q", line, gotName, name)
			}
			if gotTs != strconv.FormatUint(wantTs, 10) {
				t.Fatalf("line %q: unpickled timestamp %s want %d", line, gotTs, wantTs)
			}
			if !(gotVal == wantVal || (math.IsNaN(gotVal) && math.IsNaN(wantVal))) || math.Signbit(gotVal) != math.Signbit(wantVal) && !math.IsNaN(wantVal) {
				t.Fatalf("line %q: unpickled value %v want %v", line, gotVal, wantVal)
			}
		}
		rec.Case(line, true, "representable", fmt.Sprintf("tagged=%v", len(tags) > 0))
	})
}

func decodeDatapointList(o *pyh.Obj) (name, ts string, val float64, err error) {
	var items []pyh.Obj
	if o.T != "list" || json.Unmarshal(o.V, &items) != nil || len(items) != 1 {
		return "", "", 0, fmt.Errorf("top level is %s %s", o.T, o.V)
	}
	var pair []pyh.Obj
	if items[0].T != "tuple" || json.Unmarshal(items[0].V, &pair) != nil || len(pair) != 2 {
		return "", "", 0, fmt.Errorf("item is %s %s", items[0].T, items[0].V)
	}
	if pair[0].T != "str" && pair[0].T != "unicode" {
		return "", "", 0, fmt.Errorf("name is a %s", pair[0].T)
	}
	json.Unmarshal(pair[0].V, &name)
	var data []pyh.Obj
	if pair[1].T != "tuple" || json.Unmarshal(pair[1].V, &data) != nil || len(data) != 2 {
		return "", "", 0, fmt.Errorf("data is %s %s", pair[1].T, pair[1].V)
	}
	if data[0].T != "int" {
		return "", "", 0, fmt.Errorf("timestamp is a %s, want int", data[0].T)
	}
	json.Unmarshal(data[0].V, &ts)
	if data[1].T != "float" {
		return "", "", 0, fmt.Errorf("value is a %s, want float", data[1].T)
	}
	var rs string
	json.Unmarshal(data[1].V, &rs)
	switch rs {
	case "nan":
		val = math.NaN()
	case "inf":
		val = math.Inf(1)
	case "-inf":
		val = math.Inf(-1)
	default:
		val, err = strconv.ParseFloat(rs, 64)
	}
	return
}

// ---- (b) MetricData + storage-schemas -------------------------------------------------------

type rule struct {
	name     string
	pattern  string
	ret      string
	first    int // seconds per point of the first retention
	priority *int
}

var patterns = []string{`foo`, `^foo\.bar`, `^foo\.bar$`, `bar$`, `^foo\.`, `foo\.bar;dc=eu`, `;dc=eu`, `dc=eu$`, `^a$`, `^srv\.`, `\.cpu\.`, `host=web1`, `^foo\.bar;`, `bar;`, `^[a-z.]+$`, `requests_total$`, `^stats\..*_total$`}

type retT struct {
	s     string
	first int
}

// (numbers are decimal however they are padded: 060 is sixty)
var retentions = []retT{{"60:1440", 60}, {"10s:1d", 10}, {"1s:1h,10s:1d", 1}, {"1m:30d,1h:5y", 60}, {"5:100,60:1000", 5}, {"2h:1y", 7200}, {"30s:6h , 5m:7d", 30}, {"1d:10y", 86400}, {"15:5760", 15},
	{"060:01440", 60}, {"010:0100", 10}, {"0300:012", 300}, {"010s:1d", 10}, {"08:090", 8}}

func genSchemas(t *rapid.T) ([]rule, string) {
	n := rapid.IntRange(0, 6).Draw(t, "nrules")
	var rules []rule
	for i := 0; i < n; i++ {
		r := rule{name: fmt.Sprintf("rule%d", i), pattern: rapid.SampledFrom(patterns).Draw(t, "pattern")}
		if rapid.IntRange(0, 2).Draw(t, "sharedname") == 0 {
			// section names are labels, not keys: a copied rule with an unedited header (or a second [default]) is a rule of its own
			r.name = rapid.SampledFrom([]string{"carbon", "default", "app", "everything else", "rule0"}).Draw(t, "name")
		}
		rt := rapid.SampledFrom(retentions).Draw(t, "ret")
		r.ret, r.first = rt.s, rt.first
		if rapid.IntRange(0, 2).Draw(t, "hasprio") == 0 {
			p := rapid.SampledFrom([]int{0, 1, 1, 5, 100, -1, 8, 9, 10, 64}).Draw(t, "prio")
			r.priority = &p
		}
		rules = append(rules, r)
	}
	// the mandatory default, somewhere (usually last)
	def := rule{name: "default", pattern: ".*"}
	rt := rapid.SampledFrom(retentions).Draw(t, "defret")
	def.ret, def.first = rt.s, rt.first
	pos := len(rules)
	if rapid.IntRange(0, 5).Draw(t, "defpos") == 0 {
		pos = rapid.IntRange(0, len(rules)).Draw(t, "defidx")
	}
	rules = append(rules[:pos], append([]rule{def}, rules[pos:]...)...)
	var sb strings.Builder
	for i, r := range rules {
		if i%3 == 1 {
			sb.WriteString("# a comment\n\n")
		}
		fmt.Fprintf(&sb, "[%s]\n", r.name)
		eq := rapid.SampledFrom([]string{" = ", "=", " =", "= "}).Draw(t, "eq")
		fmt.Fprintf(&sb, "pattern%s%s\n", eq, r.pattern)
		if r.priority != nil {
			if *r.priority > 0 && rapid.IntRange(0, 3).Draw(t, "paddedprio") == 0 {
				fmt.Fprintf(&sb, "priority%s0%d\n", eq, *r.priority) // zero-padded, still decimal
			} else {
				fmt.Fprintf(&sb, "priority%s%d\n", eq, *r.priority)
			}
		}
		fmt.Fprintf(&sb, "retentions%s%s\n", eq, r.ret)
	}
	return rules, sb.String()
}

// reference selector: highest priority first, then file order; first pattern
// that matches the series as Graphite presents it.
func refInterval(rules []rule, subject string) (int, string, int) {
	idx := make([]int, len(rules))
	for i := range idx {
		idx[i] = i
	}
	prio := func(r rule) int {
		if r.priority == nil {
			return 0
		}
		return *r.priority
	}
	sort.SliceStable(idx, func(a, b int) bool { return prio(rules[idx[a]]) > prio(rules[idx[b]]) })
	matching := 0
	chosen := -1
	for _, i := range idx {
		if regexp.MustCompile(rules[i].pattern).MatchString(subject) {
			matching++
			if chosen < 0 {
				chosen = i
			}
		}
	}
	return rules[chosen].first, rules[chosen].name, matching
}

var fileSeq int

func TestPropMetricData(t *testing.T) {
	rec := ev.Get("metricdata")
	dir := os.Getenv("VERIF_SCRATCH")
	if dir == "" {
		dir = os.TempDir()
	}
	rapid.Check(t, func(t *rapid.T) {
		rules, text := genSchemas(t)
		fileSeq++
		fn := filepath.Join(dir, fmt.Sprintf("schemas-%d-%d.conf", os.Getpid(), fileSeq%4))
		if err := os.WriteFile(fn, []byte(text), 0644); err != nil {
			t.Fatalf("HARNESS-ERROR: %v", err)
		}
		schemas, err := route.VerifGetSchemas(fn)
		if err != nil {
			t.Fatalf("storage-schemas file refused: %v\n%s", err, text)
		}
		orgId := rapid.SampledFrom([]int{1, 2, 42, 100000}).Draw(t, "orgId")
		nl := rapid.IntRange(1, 6).Draw(t, "nlines")
		for li := 0; li < nl; li++ {
			base, tags := genName(t)
			// tags in arbitrary (generated) order on the wire
			name := base
			if len(tags) > 0 {
				name += ";" + strings.Join(tags, ";")
			}
			valTok := drawTok(t, "val", goodValues, badValues)
			tsTok := drawTok(t, "ts", goodTs, badTs)
			line := name + " " + valTok + " " + tsTok
			wantVal, verr := strconv.ParseFloat(valTok, 64)
			if ne, ok := verr.(*strconv.NumError); ok && ne.Err == strconv.ErrRange {
				verr = ne
			}
			wantTs, terr := strconv.ParseUint(tsTok, 10, 32)
			tagsOK := true
			for _, tg := range tags {
				eq := strings.Index(tg, "=")
				if len(tg) < 3 || eq <= 0 || eq == len(tg)-1 || strings.ContainsAny(tg[:eq], ";!^=") || tg[eq+1] == '~' {
					tagsOK = false
				}
			}
			md, err := route.VerifParseMetric([]byte(line), schemas, orgId)
			if verr != nil || terr != nil || !tagsOK {
				if err == nil {
					t.Fatalf("line %q cannot be represented (value %v, timestamp %v, tags ok %v) but a record was built: %+v", line, verr, terr, tagsOK, md)
				}
				rec.Case("unrepresentable "+line, false, "unrepresentable")
				continue
			}
			if err != nil {
				t.Fatalf("line %q is representable but was refused: %v", line, err)
			}
			sorted := append([]string(nil), tags...)
			sort.Strings(sorted)
			subject := base
			if len(sorted) > 0 {
				subject += ";" + strings.Join(sorted, ";")
			}
			wantInt, ruleName, nmatch := refInterval(rules, subject)
			if md.Name != base {
				t.Fatalf("line %q: record name %q want %q", line, md.Name, base)
			}
			if fmt.Sprint(md.Tags) != fmt.Sprint(sorted) && !(len(md.Tags) == 0 && len(sorted) == 0) {
				t.Fatalf("line %q: record tags %v want %v", line, md.Tags, sorted)
			}
			if !(md.Value == wantVal || (math.IsNaN(md.Value) && math.IsNaN(wantVal))) {
				t.Fatalf("line %q: record value %v want %v", line, md.Value, wantVal)
			}
			if md.Time != int64(wantTs) {
				t.Fatalf("line %q: record time %d want %d", line, md.Time, wantTs)
			}
			if md.OrgId != orgId {
				t.Fatalf("line %q: record org id %d want %d", line, md.OrgId, orgId)
			}
			if md.Interval != wantInt {
				t.Fatalf("line %q (series %q): record interval %d, want %d from rule [%s]; schemas file:\n%s", line, subject, md.Interval, wantInt, ruleName, text)
			}
			decider := false
			for _, r := range rules {
				if r.name == ruleName && (strings.HasSuffix(r.pattern, "$") || strings.Contains(r.pattern, ";") || strings.Contains(r.pattern, "=")) {
					decider = true
				}
			}
			rec.Case(line+" | "+text, nmatch >= 2 && decider && ruleName != "default", fmt.Sprintf("tagged=%v", len(tags) > 0), fmt.Sprintf("rules-matching=%d", min(nmatch, 4)), "chosen-default="+strconv.FormatBool(ruleName == "default"))
		}
	})
}
