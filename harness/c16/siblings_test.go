// C16 — several pickle-mode destinations working at the same time (one route, every destination its own endpoint, one of
// them slow): what each endpoint receives must still be a sequence of length-prefixed pickles, each decoding to exactly one
// of the lines handed in (same name, integer timestamp, float value), in hand-off order - whatever the destinations share.
package c16

import (
	"bytes"
	"encoding/binary"
	"fmt"
	"testing"
	"time"

	dest "github.com/grafana/carbon-relay-ng/destination"
	"github.com/grafana/carbon-relay-ng/matcher"
	"github.com/grafana/carbon-relay-ng/route"
	ogorek "github.com/kisielk/og-rek"
	"pgregory.net/rapid"

	"verifharness/internal/ep"
	"verifharness/internal/ev"
	"verifharness/internal/h"
)

var sibSeq int

func decodeFrames(b []byte) (recs []string, rest int, err error) {
	for len(b) >= 4 {
		n := int(binary.BigEndian.Uint32(b))
		if n > 1<<20 {
			return recs, len(b), fmt.Errorf("frame announces %d bytes", n)
		}
		if n > len(b)-4 {
			break // (the tail of the stream is still on its way)
		}
		v, derr := ogorek.NewDecoder(bytes.NewReader(b[4 : 4+n])).Decode()
		if derr != nil {
			return recs, len(b), fmt.Errorf("payload % x does not unpickle: %v", b[4:4+n], derr)
		}
		list, ok := v.([]interface{})
		if !ok || len(list) != 1 {
			return recs, len(b), fmt.Errorf("payload is %T, want a list with one datapoint", v)
		}
		tup, ok := list[0].(ogorek.Tuple)
		if !ok || len(tup) != 2 {
			return recs, len(b), fmt.Errorf("datapoint is %T", list[0])
		}
		data, ok := tup[1].(ogorek.Tuple)
		if !ok || len(data) != 2 {
			return recs, len(b), fmt.Errorf("datapoint data is %T", tup[1])
		}
		recs = append(recs, fmt.Sprintf("%v|%v|%v", tup[0], data[0], data[1]))
		b = b[4+n:]
	}
	return recs, len(b), nil
}

func TestPropPickleSiblings(t *testing.T) {
	rec := ev.Get("pickle_siblings")
	rapid.Check(t, func(t *rapid.T) {
		sibSeq++
		nd := rapid.IntRange(2, 3).Draw(t, "ndest")
		iobuf := rapid.SampledFrom([]int{64, 300, 4096, 65536}).Draw(t, "iobuf")
		connbuf := rapid.SampledFrom([]int{100, 30000}).Draw(t, "connbuf")
		slow := rapid.IntRange(0, nd-1).Draw(t, "slow")
		throttle := rapid.SampledFrom([]int{2048, 16384}).Draw(t, "throttle")
		nlines := rapid.SampledFrom([]int{2000, 20000}).Draw(t, "nlines")
		rkey := fmt.Sprintf("c16s%d", sibSeq)
		var eps []*ep.Endpoint
		var dests []*dest.Destination
		for i := 0; i < nd; i++ {
			e := ep.NewSmallBuf(16384)
			defer e.Close()
			eps = append(eps, e)
			d, err := dest.New(rkey, matcher.Matcher{}, e.Addr+fmt.Sprintf(":i%d", i), "/nonexistent-spool", false, true, 2*time.Millisecond, 20*time.Millisecond, connbuf, iobuf, 10, 1<<20, 1000, time.Second, time.Millisecond, time.Millisecond)
			if err != nil {
				t.Fatalf("HARNESS-ERROR: %v", err)
			}
			dests = append(dests, d)
		}
		rt, err := route.NewSendAllMatch(rkey, matcher.Matcher{}, dests)
		if err != nil {
			t.Fatalf("HARNESS-ERROR: %v", err)
		}
		stopped := false
		defer func() {
			if !stopped {
				rt.Shutdown()
			}
		}()
		for i, e := range eps {
			if !e.WaitAccept(1, 10*time.Second) {
				t.Fatalf("HARNESS-ERROR: destination %d never connected", i)
			}
		}
		// warm-up until every destination forwards
		for i := 0; ; i++ {
			rt.Dispatch([]byte(fmt.Sprintf("verif.warm.%d.%d 1 1500000000", sibSeq, i)))
			time.Sleep(time.Millisecond)
			up := true
			for _, e := range eps {
				up = up && e.Total() > 0
			}
			if up {
				break
			}
			if i > 5000 {
				t.Fatalf("HARNESS-ERROR: destinations never forwarded to healthy endpoints")
			}
		}
		eps[slow].ThrottleBytes = throttle
		eps[slow].SetMode(ep.Throttled)
		want := map[string]int{} // record -> position in hand-off order
		for i := 0; i < nlines; i++ {
			name := fmt.Sprintf("c16.%d.srv%d.%s", sibSeq, i, rapid.SampledFrom([]string{"cpu", "load.longer.name.to.vary.the.frame.size", "m"}).Draw(t, "leaf"))
			val := float64(i%1000) + 0.25
			ts := 1500000000 + i
			want[fmt.Sprintf("%s|%d|%v", name, ts, val)] = i
			rt.Dispatch([]byte(fmt.Sprintf("%s %v %d", name, val, ts)))
			if i%500 == 499 {
				time.Sleep(time.Millisecond)
			}
		}
		// completion: a sentinel per endpoint (the connection writer is FIFO), bounded
		eps[slow].SetMode(ep.Healthy)
		sentinel := []byte(fmt.Sprintf("c16.sentinel.%d", sibSeq))
		for dl := time.Now().Add(60 * time.Second); ; {
			rt.Dispatch([]byte(fmt.Sprintf("%s 1 1500000000", sentinel)))
			time.Sleep(5 * time.Millisecond)
			all := true
			for _, e := range eps {
				all = all && bytes.Contains(e.All(), sentinel)
			}
			if all {
				break
			}
			if time.Now().After(dl) {
				t.Fatalf("a line handed after the traffic never reached every endpoint within 60s (iobuf=%d connbuf=%d)", iobuf, connbuf)
			}
		}
		rt.Flush()
		time.Sleep(10 * time.Millisecond)
		ctx := fmt.Sprintf("%d pickle destinations in one sendAllMatch route, destination %d throttled to %d B/ms, iobuf=%d connbuf=%d, %d lines", nd, slow, throttle, iobuf, connbuf, nlines)
		dropped := false
		for i, e := range eps {
			recs, _, err := decodeFrames(e.All())
			if err != nil {
				t.Fatalf("endpoint %d: the stream is not a sequence of length-prefixed pickles of single datapoints: %v\n%s", i, err, ctx)
			}
			last := -1
			got := 0
			for _, r := range recs {
				if bytes.HasPrefix([]byte(r), []byte("verif.warm")) || bytes.HasPrefix([]byte(r), sentinel) {
					continue
				}
				pos, ok := want[r]
				if !ok {
					t.Fatalf("endpoint %d received the datapoint %q, which is none of the lines handed in (wrong name, timestamp or value)\n%s", i, r, ctx)
				}
				if pos <= last {
					t.Fatalf("endpoint %d received datapoint %q (line %d) after line %d: duplicated or out of order\n%s", i, r, pos, last, ctx)
				}
				last = pos
				got++
			}
			slowDrops := h.Count("dest=" + dests[i].Key + ".unit=Metric.action=drop.reason=slow_conn")
			if got < nlines {
				dropped = true
				if slowDrops == 0 {
					t.Fatalf("endpoint %d received %d of %d datapoints and no slow-connection drop was counted\n%s", i, got, nlines, ctx)
				}
			}
		}
		stopped = true
		sd := make(chan struct{})
		go func() { rt.Shutdown(); close(sd) }()
		select {
		case <-sd:
			for _, e := range eps {
				e.WaitPeerClosed(2 * time.Second)
			}
		case <-time.After(20 * time.Second):
		}
		rec.Case(ctx, true, fmt.Sprintf("ndest=%d", nd), fmt.Sprintf("iobuf=%d", iobuf), fmt.Sprintf("some-dropped=%v", dropped))
		rec.Num("lines_handed", int64(nlines*nd))
	})
}
