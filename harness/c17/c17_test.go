// C17 — grafana.net route: retry until acknowledged, series order kept, shutdown drains.
package c17

import (
	"bytes"
	"fmt"
	"io"
	"net"
	"net/http"
	"net/http/httptest"
	"os"
	"path/filepath"
	"strings"
	"sync"
	"testing"
	"time"

	"github.com/golang/snappy"
	"github.com/grafana/carbon-relay-ng/matcher"
	"github.com/grafana/carbon-relay-ng/route"
	"github.com/grafana/metrictank/schema/msg"
	"pgregory.net/rapid"

	"verifharness/internal/ep"
	"verifharness/internal/ev"
	"verifharness/internal/h"
)

var schemasFile, aggFile string

func TestMain(m *testing.M) {
	h.Init()
	dir := os.Getenv("VERIF_SCRATCH")
	if dir == "" {
		dir, _ = os.MkdirTemp("", "c17")
	}
	schemasFile, aggFile = filepath.Join(dir, "schemas.conf"), filepath.Join(dir, "aggregation.conf")
	os.WriteFile(schemasFile, []byte("[s5]\npattern = ^s5\\.\nretentions = 5s:1d\n[default]\npattern = .*\nretentions = 10s:1d\n"), 0644)
	os.WriteFile(aggFile, []byte("[default]\npattern = .*\nxFilesFactor = 0.5\naggregationMethod = average\n"), 0644)
	ev.Main(m)
}

type point struct {
	name     string
	ts       int64
	val      float64
	interval int
	orgID    int
}

type request struct {
	seq     int
	outcome string // 200 | 400 | 503 | hang | reset
	points  []point
	raw     string // body hash
}

type stub struct {
	mu      sync.Mutex
	script  []string
	next    int
	reqs    []request
	hang    time.Duration
	srv     *httptest.Server
	decErr  string
	errBodies []string
}

func (s *stub) handler(w http.ResponseWriter, r *http.Request) {
	if !strings.HasSuffix(r.URL.Path, "/metrics") {
		w.WriteHeader(200) // schema / aggregation config posts
		return
	}
	body, _ := io.ReadAll(r.Body)
	var pts []point
	dec, err := io.ReadAll(snappy.NewReader(bytes.NewReader(body)))
	if err == nil {
		var md msg.MetricData
		if err = md.InitFromMsg(dec); err == nil {
			if err = md.DecodeMetricData(); err == nil {
				for _, m := range md.Metrics {
					pts = append(pts, point{m.Name, m.Time, m.Value, m.Interval, m.OrgId})
				}
			}
		}
	}
	s.mu.Lock()
	if err != nil && s.decErr == "" {
		s.decErr = err.Error()
	}
	outcome := "200"
	if s.next < len(s.script) {
		outcome = s.script[s.next]
	}
	s.next++
	rq := request{seq: len(s.reqs), outcome: outcome, points: pts, raw: fmt.Sprintf("%x", hashB(body))}
	s.reqs = append(s.reqs, rq)
	hang := s.hang
	// what an error answer carries is whatever sits in front of the endpoint (plain text, nothing, a JSON error object, the
	// gateway's own publish report with zeros, HTML): a non-2xx answer is a failure whatever its body says
	errBody := "failed (scripted)"
	if len(s.errBodies) > 0 {
		errBody = s.errBodies[rq.seq%len(s.errBodies)]
	}
	s.mu.Unlock()
	switch outcome {
	case "200":
		w.WriteHeader(200)
		fmt.Fprintf(w, `{"Invalid":0,"Published":%d}`, len(pts))
	case "400":
		w.WriteHeader(400)
		w.Write([]byte(errBody))
	case "503":
		w.WriteHeader(503)
		w.Write([]byte(errBody))
	case "hang":
		// nothing for longer than the client's timeout, then the connection goes away without an answer.  (Answering
		// 200 "too late" is ambiguous: a client starved of CPU notices its own timeout late and may take that answer,
		// while this request was not recorded as an acknowledgement.)
		time.Sleep(hang)
		if hj, ok := w.(http.Hijacker); ok {
			if c, _, err := hj.Hijack(); err == nil {
				c.Close()
				return
			}
		}
		panic(http.ErrAbortHandler)
	case "reset":
		if hj, ok := w.(http.Hijacker); ok {
			c, _, err := hj.Hijack()
			if err == nil {
				if tc, ok := c.(*net.TCPConn); ok {
					tc.SetLinger(0)
				}
				c.Close()
				return
			}
		}
		panic(http.ErrAbortHandler)
	}
}

func hashB(b []byte) uint64 {
	var h uint64 = 1469598103934665603
	for _, c := range b {
		h ^= uint64(c)
		h *= 1099511628211
	}
	return h
}

var caseSeq int

func TestPropGrafanaNet(t *testing.T) {
	rec := ev.Get("grafananet")
	rapid.Check(t, func(t *rapid.T) {
		caseSeq++
		// rapid reports a failure that does not repeat on re-execution as "flaky" and drops its message: keep it on stderr
		failf := func(format string, args ...interface{}) {
			fmt.Fprintf(os.Stderr, "C17-FIRST-FAILURE: "+format+"\n", args...)
			t.Fatalf(format, args...)
		}
		timeout := time.Duration(rapid.SampledFrom([]int{50, 100, 200}).Draw(t, "timeoutMs")) * time.Millisecond
		st := &stub{hang: timeout + 60*time.Millisecond}
		nfail := rapid.IntRange(0, 8).Draw(t, "nscript")
		for i := 0; i < nfail; i++ {
			st.script = append(st.script, rapid.SampledFrom([]string{"200", "200", "400", "503", "503", "hang", "reset"}).Draw(t, "outcome"))
		}
		// a listener on this process's private loopback address: a route of an earlier case that is still retrying
		// (or one of another check process) must not reach this case's server through a recycled port
		for i, n := 0, rapid.IntRange(1, 3).Draw(t, "nerrbodies"); i < n; i++ {
			st.errBodies = append(st.errBodies, rapid.SampledFrom([]string{"failed (scripted)", "", `{"message":"upstream unavailable"}`, `{"Invalid":0,"Published":0}`,
				`{"Invalid":3,"Published":0,"ValidationErrors":{}}`, "null", "[]", "<html><body>502 Bad Gateway</body></html>", `"error"`}).Draw(t, "errbody"))
		}
		st.srv = httptest.NewUnstartedServer(http.HandlerFunc(st.handler))
		if ln, lerr := net.Listen("tcp", ep.LoopIP()+":0"); lerr == nil {
			st.srv.Listener.Close()
			st.srv.Listener = ln
		}
		st.srv.Start()
		defer st.srv.Close()
		cfg, err := route.NewGrafanaNetConfig(st.srv.URL+"/metrics", "apikey", schemasFile, aggFile)
		if err != nil {
			failf("HARNESS-ERROR: %v", err)
		}
		cfg.Concurrency = rapid.IntRange(1, 4).Draw(t, "concurrency")
		cfg.BufSize = cfg.Concurrency * rapid.SampledFrom([]int{2, 10, 100, 1000}).Draw(t, "bufPerWorker")
		cfg.FlushMaxNum = rapid.SampledFrom([]int{1, 2, 5, 20, 50}).Draw(t, "flushMaxNum")
		cfg.FlushMaxWait = time.Duration(rapid.SampledFrom([]int{5, 20, 50}).Draw(t, "flushMaxWaitMs")) * time.Millisecond
		cfg.Timeout = timeout
		cfg.ErrBackoffMin = time.Millisecond
		cfg.ErrBackoffFactor = 1.5
		cfg.Blocking = rapid.Bool().Draw(t, "blocking")
		cfg.OrgID = rapid.SampledFrom([]int{1, 7}).Draw(t, "orgId")
		// 1 case in 20: bulk -- batches of more than ten thousand points (what a relay in front of a big installation
		// sends), cut by count, by the timer or by Shutdown
		bulk := rapid.IntRange(0, 19).Draw(t, "bulk") == 0
		if bulk {
			cfg.FlushMaxNum = rapid.SampledFrom([]int{10000, 10001, 15001, 50000}).Draw(t, "bigFlushMaxNum")
			cfg.Concurrency = rapid.SampledFrom([]int{1, 1, 2}).Draw(t, "bulkConcurrency")
			cfg.BufSize = cfg.Concurrency * 40000
			cfg.FlushMaxWait = time.Duration(rapid.SampledFrom([]int{1000, 2000}).Draw(t, "bulkWaitMs")) * time.Millisecond
			// a request of 10 000+ points takes its time on a loaded machine: the client timeout must not be what fails it
			// (the scripted 'silence' outcome keeps its short duration and then ends in a closed connection)
			cfg.Timeout = 5 * time.Second
		}
		rkey := fmt.Sprintf("c17gn%d", caseSeq)
		rt, err := route.NewGrafanaNet(rkey, matcher.Matcher{}, cfg)
		if err != nil {
			failf("HARNESS-ERROR: %v", err)
		}
		dropName := "dest=" + strings.NewReplacer(".", "_", ":", "_", "/", "").Replace(cfg.Addr) + ".unit=Metric.action=drop.reason=queue_full"
		drop0 := h.Count(dropName)
		nseries := rapid.IntRange(1, 12).Draw(t, "nseries")
		npoints := rapid.IntRange(1, 120).Draw(t, "npoints")
		if bulk {
			npoints = rapid.SampledFrom([]int{10001, 12345, 20001}).Draw(t, "bulkpoints")
		}
		type sent struct {
			name string
			ts   int64
		}
		var all []sent
		tsOf := map[string]int64{}
		slowDispatch := time.Duration(0)
		for i := 0; i < npoints; i++ {
			var sname string
			if bulk {
				sname = fmt.Sprintf("s%d.c%d.metric", i%nseries, caseSeq)
				tsOf[sname]++
			} else {
				sname = fmt.Sprintf("s%d.c%d.metric", rapid.IntRange(0, nseries-1).Draw(t, "series"), caseSeq)
				tsOf[sname] += int64(rapid.IntRange(1, 3).Draw(t, "dts"))
			}
			ts := 1500000000 + tsOf[sname]
			line := fmt.Sprintf("%s %d %d", sname, i, ts)
			all = append(all, sent{sname, ts})
			done := make(chan struct{})
			t0 := time.Now()
			go func() { rt.Dispatch([]byte(line)); close(done) }()
			if cfg.Blocking {
				select {
				case <-done:
				case <-time.After(30 * time.Second):
					failf("blocking mode: Dispatch did not return within 30s although the endpoint recovers (script %v)", st.script)
				}
			} else {
				select {
				case <-done:
				case <-time.After(2 * time.Second):
					failf("non-blocking mode: Dispatch did not return within 2s (script %v, cfg %+v)", st.script, cfg)
				}
			}
			if d := time.Since(t0); d > slowDispatch {
				slowDispatch = d
			}
			if !bulk && rapid.IntRange(0, 9).Draw(t, "pause") == 0 {
				time.Sleep(time.Duration(rapid.IntRange(1, 10).Draw(t, "pauseMs")) * time.Millisecond)
			}
		}
		doShutdown := rapid.Bool().Draw(t, "shutdown")
		if doShutdown {
			sd := make(chan error, 1)
			go func() { sd <- rt.Shutdown() }()
			select {
			case <-sd:
			case <-time.After(20 * time.Second):
				failf("Shutdown() did not return within 20s with an endpoint that acknowledges everything after %d scripted failures (script %v, concurrency %d)", len(st.script), st.script, cfg.Concurrency)
			}
		}
		// completion: everything accepted is acknowledged
		acked := func() (map[sent]int, []request) {
			st.mu.Lock()
			defer st.mu.Unlock()
			m := map[sent]int{}
			for _, r := range st.reqs {
				if r.outcome == "200" {
					for _, p := range r.points {
						m[sent{p.name, p.ts}]++
					}
				}
			}
			return m, append([]request(nil), st.reqs...)
		}
		var ack map[sent]int
		var reqs []request
		deadline := time.Now().Add(30 * time.Second)
		for {
			ack, reqs = acked()
			dropped := h.Count(dropName) - drop0
			if int64(len(ack))+dropped >= int64(len(all)) {
				break
			}
			if doShutdown || time.Now().After(deadline) {
				missing := []string{}
				for _, s := range all {
					if ack[s] == 0 && len(missing) < 5 {
						missing = append(missing, fmt.Sprintf("%s@%d", s.name, s.ts))
					}
				}
				when := "30s after the last metric"
				if doShutdown {
					when = "after Shutdown() returned"
				}
				failf("%d metrics dispatched, %d counted as dropped (queue full), only %d acknowledged by a 2xx answer %s: e.g. %v (script %v, cfg concurrency=%d bufSize=%d flushMaxNum=%d flushMaxWait=%s blocking=%v)", len(all), dropped, len(ack), when, missing, st.script, cfg.Concurrency, cfg.BufSize, cfg.FlushMaxNum, cfg.FlushMaxWait, cfg.Blocking)
			}
			time.Sleep(2 * time.Millisecond)
		}
		dropped := h.Count(dropName) - drop0
		if st.decErr != "" {
			failf("a POST body could not be decoded as snappy + msgp MetricDataArray: %s", st.decErr)
		}
		if cfg.Blocking && dropped != 0 {
			failf("blocking mode dropped %d metrics", dropped)
		}
		if int64(len(ack))+dropped != int64(len(all)) {
			failf("%d dispatched != %d acknowledged + %d counted as dropped", len(all), len(ack), dropped)
		}
		dispatched := map[sent]bool{}
		for _, s := range all {
			dispatched[s] = true
		}
		for s := range ack {
			if !dispatched[s] {
				failf("acknowledged a point that was never dispatched: %+v", s)
			}
		}
		// record fields
		for _, r := range reqs {
			for _, p := range r.points {
				wantInt := 10
				if strings.HasPrefix(p.name, "s5.") {
					wantInt = 5
				}
				if p.orgID != cfg.OrgID || p.interval != wantInt {
					failf("POSTed record %+v: want org id %d and interval %d", p, cfg.OrgID, wantInt)
				}
			}
		}
		// (b) a batch answered with a failure is retried unchanged until it is acknowledged (never skipped, never re-cut)
		retried := false
		ackedBodies := map[string]bool{}
		for _, r := range reqs {
			if r.outcome == "200" {
				ackedBodies[r.raw] = true
			}
		}
		for _, r := range reqs {
			if r.outcome != "200" && len(r.points) > 0 {
				if !ackedBodies[r.raw] {
					failf("request #%d was answered %s and its body was never acknowledged unchanged afterwards (skipped or re-cut batch); script %v", r.seq, r.outcome, st.script)
				}
				retried = true
			}
		}
		// (c) per series, the FIRST acknowledgement of each point follows the order of the timestamps
		// (a stale duplicate of an already acknowledged request may be recorded late: the server sees it when
		// its handler finally runs, after the client has long given up and retried)
		lastTs := map[string]int64{}
		first := map[sent]bool{}
		multi := false
		for _, r := range reqs {
			if r.outcome != "200" {
				continue
			}
			seen := map[string]bool{}
			for _, p := range r.points {
				k := sent{p.name, p.ts}
				seen[p.name] = true
				if first[k] {
					continue // duplicate from a retry
				}
				first[k] = true
				if p.ts < lastTs[p.name] {
					failf("series %s: the point with timestamp %d was first acknowledged after the point with timestamp %d (script %v)", p.name, p.ts, lastTs[p.name], st.script)
				}
				lastTs[p.name] = p.ts
			}
			if len(seen) >= 2 {
				multi = true
			}
		}
		if !doShutdown {
			sd := make(chan error, 1)
			go func() { sd <- rt.Shutdown() }()
			select {
			case <-sd:
			case <-time.After(20 * time.Second):
				failf("Shutdown() did not return within 20s after everything had been acknowledged (concurrency %d)", cfg.Concurrency)
			}
		}
		rec.Case(fmt.Sprintf("script=%v conc=%d buf=%d flushMaxNum=%d wait=%s timeout=%s blocking=%v series=%d points=%d shutdownFirst=%v", st.script, cfg.Concurrency, cfg.BufSize, cfg.FlushMaxNum, cfg.FlushMaxWait, timeout, cfg.Blocking, nseries, npoints, doShutdown),
			retried && multi, fmt.Sprintf("retried=%v", retried), fmt.Sprintf("dropped>0=%v", dropped > 0), fmt.Sprintf("blocking=%v", cfg.Blocking), fmt.Sprintf("shutdown-before-drain=%v", doShutdown))
		rec.Num("requests", int64(len(reqs)))
	})
}
