// C18 — runtime table changes are atomic with respect to traffic.
package c18

import (
	"fmt"
	"os"
	"runtime"
	"runtime/debug"
	"sort"
	"strings"
	"sync"
	"testing"
	"time"

	"github.com/grafana/carbon-relay-ng/aggregator"
	dest "github.com/grafana/carbon-relay-ng/destination"
	"github.com/grafana/carbon-relay-ng/matcher"
	"github.com/grafana/carbon-relay-ng/route"
	"github.com/grafana/carbon-relay-ng/table"
	"pgregory.net/rapid"

	"verifharness/internal/ev"
	"verifharness/internal/gen"
	"verifharness/internal/h"
	"verifharness/internal/ref"
)

func TestMain(m *testing.M) { h.Init(); ev.Main(m) }

// ---- parking -----------------------------------------------------------------------------------

type parker struct {
	mu     sync.Mutex
	at     string // park at this point ("" = nowhere)
	armed  bool
	parked chan struct{}
	resume chan struct{}
}

var pk = &parker{}

func (p *parker) hit(where string) {
	p.mu.Lock()
	if !p.armed || p.at != where {
		p.mu.Unlock()
		return
	}
	p.armed = false
	parked, resume := p.parked, p.resume
	p.mu.Unlock()
	close(parked)
	<-resume
}

func (p *parker) arm(where string) (parked, resume chan struct{}) {
	p.mu.Lock()
	defer p.mu.Unlock()
	p.at, p.armed = where, true
	p.parked, p.resume = make(chan struct{}), make(chan struct{})
	return p.parked, p.resume
}

func (p *parker) disarm() {
	p.mu.Lock()
	p.armed = false
	p.mu.Unlock()
}

func init() {
	table.VerifAfterLoad = func(where string) { pk.hit(where) }
	route.VerifAfterLoad = func(where string) { pk.hit("route:" + where) }
}

// ---- a small table used by G2 -------------------------------------------------------------------

const line = "foo.bar 1 1500000000"
const name = "foo.bar"

// filters that accept / reject the fixed name, so both kinds of entries are around
var accF = []gen.Filter{{}, {}, {Prefix: "foo"}, {Sub: "o.b"}, {Regex: `^foo\.`}, {NotSub: "zzz"}}
var rejF = []gen.Filter{{Prefix: "bar"}, {NotPrefix: "foo"}, {Regex: `^x`}, {Sub: "zzz"}}

func genF(t *rapid.T, label string, rejectPct int) gen.Filter {
	if rapid.IntRange(0, 99).Draw(t, label+".rej") < rejectPct {
		return rapid.SampledFrom(rejF).Draw(t, label)
	}
	return rapid.SampledFrom(accF).Draw(t, label)
}

func genSmallModel(t *rapid.T) *ref.Model {
	m := &ref.Model{}
	for i, n := 0, rapid.IntRange(0, 3).Draw(t, "nblack"); i < n; i++ {
		m.Blacklist = append(m.Blacklist, rapid.SampledFrom(rejF).Draw(t, "bl")) // entries that do not match (so traversal continues)
	}
	for i, n := 0, rapid.IntRange(0, 3).Draw(t, "nrw"); i < n; i++ {
		// mostly rules that change the name every time they are applied (a rule applied twice or skipped is then visible)
		m.Rewriters = append(m.Rewriters, rapid.SampledFrom([]ref.RW{{Old: "/$/", New: ".s", Max: -1}, {Old: "bar", New: "bar.x", Max: 1}, {Old: "/$/", New: ".t", Max: -1}, {Old: "zz", New: "x", Max: -1}}).Draw(t, "rw"))
	}
	for i, n := 0, rapid.IntRange(0, 3).Draw(t, "nagg"); i < n; i++ {
		f := genF(t, "agg", 30)
		if f.Regex == "" {
			f.Regex = "."
		}
		// one in three consumes what it matches (drop-raw): deleting it, or a change before it, then decides whether
		// the routes see the metric at all
		m.Aggs = append(m.Aggs, ref.AggModel{Filter: f, DropRaw: rapid.IntRange(0, 2).Draw(t, "dropraw") == 0})
	}
	nr := rapid.IntRange(2, 5).Draw(t, "nroutes")
	for i := 0; i < nr; i++ {
		r := ref.RouteModel{Key: fmt.Sprintf("r%d", i), Filter: genF(t, "route", 15)}
		r.Type = rapid.SampledFrom([]string{"capture", "capture", "sendAllMatch", "sendFirstMatch", "consistentHashing"}).Draw(t, "rtype")
		if r.Type != "capture" {
			maxd := 4
			if r.Type == "consistentHashing" {
				maxd = 7 // (ring sizes on both sides of the slice growth steps)
			}
			for j, nd := 0, rapid.SampledFrom([]int{1, 2, 3, 4, 5, 6, 7}[:maxd]).Draw(t, "ndest"); j < nd; j++ {
				r.Dests = append(r.Dests, ref.DestModel{Filter: genF(t, "dest", 25), Inst: j, InstSet: true})
			}
		}
		m.Routes = append(m.Routes, r)
	}
	return m
}

func cloneModel(m *ref.Model) *ref.Model {
	c := &ref.Model{}
	c.Blacklist = append(c.Blacklist, m.Blacklist...)
	c.Rewriters = append(c.Rewriters, m.Rewriters...)
	c.Aggs = append(c.Aggs, m.Aggs...)
	for _, r := range m.Routes {
		r2 := r
		r2.Dests = append([]ref.DestModel(nil), r.Dests...)
		c.Routes = append(c.Routes, r2)
	}
	return c
}

// observed / expected deliveries of the parked metric, keyed by stable entity ids
type deliveries map[string]int

func (d deliveries) String() string {
	var ks []string
	for k, v := range d {
		if v != 0 {
			ks = append(ks, fmt.Sprintf("%s=%d", k, v))
		}
	}
	sort.Strings(ks)
	return "{" + strings.Join(ks, " ") + "}"
}

// expected deliveries under a model; ids maps model positions to stable entity ids
type ids struct {
	routes []string   // per route position
	dests  [][]string // per route position, per dest position
	aggs   []string
}

func expected(m *ref.Model, id ids) deliveries {
	d := deliveries{}
	o := m.Dispatch(name)
	if o.Blacklisted {
		d["blacklisted"] = 1
		return d
	}
	for _, ai := range o.AggSeen {
		d["agg:"+id.aggs[ai]]++
	}
	if o.DroppedRaw {
		return d
	}
	if o.Unroutable {
		d["unroutable"] = 1
	}
	for _, ri := range o.Routes {
		if m.Routes[ri].Type == "capture" {
			d["route:"+id.routes[ri]]++
		} else if m.Routes[ri].Type == "consistentHashing" {
			// exactly the destination carbon's ring picks among the destinations of this state
			var insts []int
			for _, dm := range m.Routes[ri].Dests {
				insts = append(insts, dm.Inst)
			}
			d["dest:"+id.dests[ri][ref.CarbonOwner(insts, o.NewName)]]++
		} else {
			for _, dj := range o.Dests[ri] {
				d["dest:"+id.dests[ri][dj]]++
			}
		}
	}
	return d
}

var entSeq int

func cloneIDs(id ids) ids {
	c := ids{routes: append([]string(nil), id.routes...), aggs: append([]string(nil), id.aggs...)}
	for _, ds := range id.dests {
		c.dests = append(c.dests, append([]string(nil), ds...))
	}
	return c
}

func TestPropParkedDispatch(t *testing.T) {
	rec := ev.Get("parked_dispatch")
	rapid.Check(t, func(t *rapid.T) {
		mb := genSmallModel(t)
		b := ref.Build(mb, ref.BuildOpts{InBuf: 10, AggFmts: uniqueFmts(len(mb.Aggs))})
		destSeq := 0
		// stable ids and the objects behind them
		var idb ids
		destObjs := map[string]*dest.Destination{}
		routeObjs := map[string]route.Route{}
		for i, r := range mb.Routes {
			idb.routes = append(idb.routes, r.Key)
			routeObjs[r.Key] = b.Routes[i]
			var ds []string
			for j := range r.Dests {
				k := fmt.Sprintf("%s/d%d", r.Key, j)
				ds = append(ds, k)
				destObjs[k] = b.Dests[i][j]
			}
			idb.dests = append(idb.dests, ds)
		}
		aggObjs := map[string]*aggregator.Aggregator{}
		for i := range mb.Aggs {
			k := fmt.Sprintf("a%d", i)
			idb.aggs = append(idb.aggs, k)
			aggObjs[k] = b.Aggs[i]
		}
		capObjs := map[string]*h.CaptureRoute{}
		for i, c := range b.Caps {
			capObjs[mb.Routes[i].Key] = c
		}

		// park point
		points := []string{"table.Dispatch", "table.Dispatch"}
		for _, r := range mb.Routes {
			if r.Type == "capture" {
				points = append(points, "capture:"+r.Key)
			} else {
				points = append(points, "route:"+r.Key)
			}
		}
		point := rapid.SampledFrom(points).Draw(t, "parkpoint")
		parkedIn, focused, pathFocused, pairWindow := "table", false, false, false
		for _, r := range mb.Routes {
			if point == "route:"+r.Key || point == "capture:"+r.Key {
				parkedIn = r.Type
			}
		}

		// 1-3 admin operations, each generated against the table as the previous ones leave it
		cur := cloneModel(mb)
		curID := cloneIDs(idb)
		type state struct {
			m  *ref.Model
			id ids
		}
		states := []state{{cloneModel(mb), cloneIDs(idb)}}
		var ops []func() error
		var opDescs []string
		deletedNonLast := false
		var drainDests []*dest.Destination
		deletedRoutes := map[string]bool{}
		deletedAggs := map[string]bool{}
		kinds := []string{"delRoute", "delRoute", "addRoute", "delBlack", "delBlack", "addBlack", "delRewriter", "delRewriter", "addRewriter", "delAgg", "delAgg", "addAgg", "delDest", "delDest", "addDest", "modRoute", "modDest"}
		nops := rapid.SampledFrom([]int{1, 1, 2, 2, 3}).Draw(t, "nops")
		// "pairs": with the dispatcher parked at table level, one window in three is exactly two changes that both lie on
		// the metric's way - first one that adds or alters something in front of it (so that every later table treats the
		// metric differently), then the removal of something the held snapshot still refers to.  A removed entity that
		// answers differently once it is shut down only shows in such a window (alone, "old table minus the entity" equals
		// the table after).
		var forced []string
		if point == "table.Dispatch" && rapid.IntRange(0, 2).Draw(t, "pairs") == 0 {
			nops = 2
			forced = []string{
				rapid.SampledFrom([]string{"addBlack", "addAgg", "addRewriter", "addRoute", "delRoute", "modRoute", "delAgg"}).Draw(t, "pair1"),
				rapid.SampledFrom([]string{"delAgg", "delAgg", "delRoute", "delRoute", "delDest", "delRewriter", "delBlack"}).Draw(t, "pair2"),
			}
			pairWindow = true
		}
		for oi := 0; oi < nops; oi++ {
			entSeq++
			kind := rapid.SampledFrom(kinds).Draw(t, "op")
			var realRoutes []int
			for i, r := range cur.Routes {
				if r.Type != "capture" {
					realRoutes = append(realRoutes, i)
				}
			}
			// when the dispatcher is parked inside a carbon route, half of the operations work on that very route
			// (its destination list, a destination's filter, its own filter): those are the interleavings that matter there
			focus := -1
			if strings.HasPrefix(point, "route:") && rapid.Bool().Draw(t, "focus") {
				for _, i := range realRoutes {
					if cur.Routes[i].Key == point[len("route:"):] {
						focus = i
					}
				}
				if focus >= 0 {
					focused = true
					kind = rapid.SampledFrom([]string{"addDest", "addDest", "delDest", "delDest", "modDest", "modRoute"}).Draw(t, "focusop")
				}
			}
			// "path focus": half of the other operations aim at what lies on this metric's way through the table as it is
			// now - the aggregations that see it (a drop-raw one decides whether any route does), the routes that accept it
			onPath := cur.Dispatch(name)
			pathFocus := focus < 0 && rapid.Bool().Draw(t, "pathfocus")
			if forced != nil {
				pathFocus, pathFocused, kind = true, true, forced[oi]
			} else if pathFocus {
				kind = rapid.SampledFrom([]string{"delAgg", "delAgg", "delRoute", "delRoute", "modRoute", "addAgg", "addBlack", "delRewriter", "addRoute"}).Draw(t, "pathop")
				pathFocused = true
			}
			var op func() error
			var desc string
			switch kind {
			case "delRoute":
				if len(cur.Routes) <= 1 {
					continue
				}
				i := rapid.IntRange(0, len(cur.Routes)-1).Draw(t, "idx")
				if pathFocus && len(onPath.Routes) > 0 {
					i = rapid.SampledFrom(onPath.Routes).Draw(t, "pathidx")
				}
				key := cur.Routes[i].Key
				op = func() error { return b.Tab.DelRoute(key) }
				desc = "delRoute " + key
				deletedNonLast = deletedNonLast || i < len(cur.Routes)-1
				for _, dk := range curID.dests[i] {
					drainDests = append(drainDests, destObjs[dk])
				}
				deletedRoutes[key] = true
				cur.Routes = append(cur.Routes[:i:i], cur.Routes[i+1:]...)
				curID.routes = append(curID.routes[:i:i], curID.routes[i+1:]...)
				curID.dests = append(curID.dests[:i:i], curID.dests[i+1:]...)
			case "addRoute":
				key := fmt.Sprintf("new%d", entSeq)
				f := genF(t, "newroute", 20)
				c := h.NewCaptureRoute(key, f.MustMatcher())
				capObjs[key] = c
				routeObjs[key] = c
				op = func() error { b.Tab.AddRoute(c); return nil }
				desc = "addRoute " + key + f.String()
				cur.Routes = append(cur.Routes, ref.RouteModel{Key: key, Type: "capture", Filter: f})
				curID.routes = append(curID.routes, key)
				curID.dests = append(curID.dests, nil)
			case "delBlack":
				if len(cur.Blacklist) == 0 {
					continue
				}
				i := rapid.IntRange(0, len(cur.Blacklist)-1).Draw(t, "idx")
				op = func() error { return b.Tab.DelBlacklist(i) }
				desc = fmt.Sprintf("delBlack %d", i)
				deletedNonLast = deletedNonLast || i < len(cur.Blacklist)-1
				cur.Blacklist = append(cur.Blacklist[:i:i], cur.Blacklist[i+1:]...)
			case "addBlack":
				f := rapid.SampledFrom([]gen.Filter{{Prefix: "foo"}, {Sub: "zzz"}, {Regex: "bar$"}, {Sub: ".s"}}).Draw(t, "newbl")
				if pathFocus && rapid.Bool().Draw(t, "newbl-matching") {
					f = gen.Filter{Prefix: "foo"}
				}
				mm := f.MustMatcher()
				op = func() error { b.Tab.AddBlacklist(&mm); return nil }
				desc = "addBlack " + f.String()
				cur.Blacklist = append(cur.Blacklist, f)
			case "delRewriter":
				if len(cur.Rewriters) == 0 {
					continue
				}
				i := rapid.IntRange(0, len(cur.Rewriters)-1).Draw(t, "idx")
				op = func() error { return b.Tab.DelRewriter(i) }
				desc = fmt.Sprintf("delRewriter %d", i)
				deletedNonLast = deletedNonLast || i < len(cur.Rewriters)-1
				cur.Rewriters = append(cur.Rewriters[:i:i], cur.Rewriters[i+1:]...)
			case "addRewriter":
				r := rapid.SampledFrom([]ref.RW{{Old: "/$/", New: ".n", Max: -1}, {Old: "foo", New: "moo", Max: 1}, {Old: "/^/", New: "p.", Max: -1}}).Draw(t, "newrw")
				rw, _ := r.Real()
				op = func() error { b.Tab.AddRewriter(rw); return nil }
				desc = "addRewriter " + r.String()
				cur.Rewriters = append(cur.Rewriters, r)
			case "delAgg":
				if len(cur.Aggs) == 0 {
					continue
				}
				i := rapid.IntRange(0, len(cur.Aggs)-1).Draw(t, "idx")
				if pathFocus && len(onPath.AggSeen) > 0 {
					i = rapid.SampledFrom(onPath.AggSeen).Draw(t, "pathidx")
				}
				op = func() error { return b.Tab.DelAggregator(i) }
				desc = fmt.Sprintf("delAgg %d", i)
				deletedNonLast = deletedNonLast || i < len(cur.Aggs)-1
				deletedAggs[curID.aggs[i]] = true
				cur.Aggs = append(cur.Aggs[:i:i], cur.Aggs[i+1:]...)
				curID.aggs = append(curID.aggs[:i:i], curID.aggs[i+1:]...)
			case "addAgg":
				f := genF(t, "newagg", 30)
				if f.Regex == "" {
					f.Regex = "."
				}
				k := fmt.Sprintf("anew%d", entSeq)
				dropRaw := rapid.IntRange(0, 2).Draw(t, "newdropraw") == 0
				if pathFocus {
					dropRaw = rapid.Bool().Draw(t, "newdropraw-path")
				}
				ag, err := aggregator.NewMocked("count", f.MustMatcher(), "c18."+k, false, 10, 100, dropRaw, b.AggOut, 10, func() time.Time { return time.Unix(1500000000, 0) }, make(chan time.Time))
				if err != nil {
					t.Fatalf("HARNESS-ERROR: %v", err)
				}
				aggObjs[k] = ag
				op = func() error { b.Tab.AddAggregator(ag); return nil }
				desc = fmt.Sprintf("addAgg %s dropRaw=%v", f.String(), dropRaw)
				cur.Aggs = append(cur.Aggs, ref.AggModel{Filter: f, DropRaw: dropRaw})
				curID.aggs = append(curID.aggs, k)
			case "delDest", "addDest", "modDest":
				if len(realRoutes) == 0 {
					continue
				}
				ri := realRoutes[rapid.IntRange(0, len(realRoutes)-1).Draw(t, "ridx")]
				if focus >= 0 {
					ri = focus
				}
				key := cur.Routes[ri].Key
				rt := routeObjs[key]
				switch kind {
				case "delDest":
					if len(cur.Routes[ri].Dests) == 0 {
						continue
					}
					if cur.Routes[ri].Type == "consistentHashing" && len(cur.Routes[ri].Dests) == 1 {
						continue // (refused by the relay: a consistent-hashing route keeps at least one destination)
					}
					j := rapid.IntRange(0, len(cur.Routes[ri].Dests)-1).Draw(t, "didx")
					op = func() error { return b.Tab.DelDestination(key, j) }
					desc = fmt.Sprintf("delDest %s %d", key, j)
					deletedNonLast = deletedNonLast || j < len(cur.Routes[ri].Dests)-1
					drainDests = append(drainDests, destObjs[curID.dests[ri][j]])
					cur.Routes[ri].Dests = append(cur.Routes[ri].Dests[:j:j], cur.Routes[ri].Dests[j+1:]...)
					curID.dests[ri] = append(curID.dests[ri][:j:j], curID.dests[ri][j+1:]...)
				case "addDest":
					f := genF(t, "newdest", 25)
					destSeq++ // (per case: the instance decides the ring positions, so it must be a function of the draws only)
					nd := h.CounterDest(key, f.MustMatcher(), 100+destSeq)
					k := fmt.Sprintf("%s/dnew%d", key, entSeq)
					destObjs[k] = nd
					op = func() error {
						switch r := rt.(type) {
						case *route.SendAllMatch:
							r.Add(nd)
						case *route.SendFirstMatch:
							r.Add(nd)
						case *route.ConsistentHashing:
							r.Add(nd)
						}
						return nil
					}
					desc = fmt.Sprintf("addDest %s %s", key, f)
					cur.Routes[ri].Dests = append(cur.Routes[ri].Dests, ref.DestModel{Filter: f, Inst: 100 + destSeq, InstSet: true})
					curID.dests[ri] = append(curID.dests[ri], k)
				default:
					if len(cur.Routes[ri].Dests) == 0 {
						continue
					}
					j := rapid.IntRange(0, len(cur.Routes[ri].Dests)-1).Draw(t, "didx")
					f := genF(t, "moddest", 50)
					opts := map[string]string{"prefix": f.Prefix, "notPrefix": f.NotPrefix, "sub": f.Sub, "notSub": f.NotSub, "regex": f.Regex, "notRegex": f.NotRegex}
					op = func() error { return b.Tab.UpdateDestination(key, j, opts) }
					desc = fmt.Sprintf("modDest %s %d %s", key, j, f)
					cur.Routes[ri].Dests[j].Filter = f
				}
			case "modRoute":
				ri := rapid.IntRange(0, len(cur.Routes)-1).Draw(t, "ridx")
				if focus >= 0 {
					ri = focus
				}
				if pathFocus && len(onPath.Routes) > 0 {
					ri = rapid.SampledFrom(onPath.Routes).Draw(t, "pathidx")
				}
				key := cur.Routes[ri].Key
				f := genF(t, "modroute", 50)
				opts := map[string]string{"prefix": f.Prefix, "notPrefix": f.NotPrefix, "sub": f.Sub, "notSub": f.NotSub, "regex": f.Regex, "notRegex": f.NotRegex}
				op = func() error { return b.Tab.UpdateRoute(key, opts) }
				desc = fmt.Sprintf("modRoute %s %s", key, f)
				cur.Routes[ri].Filter = f
			}
			if op == nil {
				continue
			}
			ops = append(ops, op)
			opDescs = append(opDescs, desc)
			states = append(states, state{cloneModel(cur), cloneIDs(curID)})
		}
		if len(ops) == 0 {
			t.Skip("no applicable operation")
		}
		opDesc := strings.Join(opDescs, "; ")
		if os.Getenv("C18_DEBUG") != "" && pairWindow {
			fmt.Fprintf(os.Stderr, "PAIR %s | %s\n", opDesc, mb)
		}
		ma, ida := states[len(states)-1].m, states[len(states)-1].id

		// baseline counters
		c0 := h.ReadTableCounters()
		destBase := map[string]int64{}
		for k, d := range destObjs {
			destBase[k] = h.DestDropNoConn(d.Key)
		}
		aggBase := map[string]int64{}
		for k, a := range aggObjs {
			aggBase[k] = h.Count("unit=Metric.direction=in.aggregator=" + a.Key)
		}

		// park the dispatcher
		var parked, resume chan struct{}
		if strings.HasPrefix(point, "capture:") {
			parked, resume = make(chan struct{}), make(chan struct{})
			c := capObjs[strings.TrimPrefix(point, "capture:")]
			once := sync.Once{}
			c.OnDisp = func([]byte) { once.Do(func() { close(parked); <-resume }) }
		} else {
			parked, resume = pk.arm(point)
		}
		dispDone := make(chan struct{})
		var dispPanic interface{}
		var dispStack []byte
		go func() {
			defer close(dispDone)
			defer func() {
				// (in the relay this panic ends the process; here it is kept so that the case can be reported and shrunk)
				if r := recover(); r != nil {
					dispPanic, dispStack = r, debug.Stack()
				}
			}()
			b.Tab.Dispatch([]byte(line))
		}()
		reached := false
		select {
		case <-parked:
			reached = true
		case <-dispDone: // the park point is not on this metric's path
		case <-time.After(10 * time.Second):
			t.Fatalf("dispatcher neither finished nor reached the park point %s", point)
		}
		pk.disarm()
		// run the admin operations to completion, one after the other, while the dispatcher holds what it has loaded
		for oi, op := range ops {
			opDone := make(chan error, 1)
			go func() { opDone <- op() }()
			select {
			case err := <-opDone:
				if err != nil {
					close(resume)
					t.Fatalf("admin operation %q failed: %v", opDescs[oi], err)
				}
			case <-time.After(10 * time.Second):
				close(resume)
				t.Fatalf("admin operation %q did not complete while a dispatcher was in flight (table %s)", opDescs[oi], mb)
			}
		}
		// a deleted destination no longer reads its input: drain it so a late hand-off is observed instead of blocking forever
		drained := map[*dest.Destination]*int64{}
		stopDrain := make(chan struct{})
		var dwg sync.WaitGroup
		for _, d := range drainDests {
			var n int64
			drained[d] = &n
			dwg.Add(1)
			go func(d *dest.Destination, n *int64) {
				defer dwg.Done()
				for {
					select {
					case <-d.In:
						*n++
					case <-stopDrain:
						return
					}
				}
			}(d, &n)
		}
		if reached {
			close(resume)
			select {
			case <-dispDone:
			case <-time.After(10 * time.Second):
				t.Fatalf("dispatcher did not finish after %q (parked at %s; table %s)", opDesc, point, mb)
			}
		}
		if dispPanic != nil {
			close(stopDrain)
			dwg.Wait()
			t.Fatalf("metric %q dispatched while %q ran (dispatcher parked at %s, reached=%v): the dispatcher PANICKED: %v\n  table before: %s\n%s", line, opDesc, point, reached, dispPanic, mb, dispStack)
		}
		close(stopDrain)
		dwg.Wait()

		// observe (aggregations count a point only once their own goroutine has taken it from the
		// inbox, so the reading is repeated until it agrees with one of the admissible outcomes or 3 s pass)
		observe := func(base0 h.TableCounters) deliveries {
			got := deliveries{}
			for k, c := range capObjs {
				got["route:"+k] = len(c.Lines())
			}
			for k, rt := range routeObjs {
				if _, isCap := capObjs[k]; isCap || deletedRoutes[k] {
					continue
				}
				rt.Flush()
			}
			for k, d := range destObjs {
				n := int(h.DestDropNoConn(d.Key) - destBase[k])
				if dn, ok := drained[d]; ok {
					n += int(*dn)
				}
				got["dest:"+k] = n
			}
			for k, a := range aggObjs {
				if !deletedAggs[k] {
					a.Snapshot()
				}
				got["agg:"+k] = int(h.Count("unit=Metric.direction=in.aggregator="+a.Key) - aggBase[k])
			}
			c1 := h.ReadTableCounters().Sub(base0)
			got["blacklisted"] = int(c1.Blacklist)
			got["unroutable"] = int(c1.Unroutable)
			return got
		}
		// a hand-off to an aggregation deleted by one of the operations cannot be observed (it stopped counting)
		ignore := map[string]bool{}
		for k := range deletedAggs {
			ignore["agg:"+k] = true
		}
		eq := func(a, b deliveries) bool {
			keys := map[string]bool{}
			for k := range a {
				keys[k] = true
			}
			for k := range b {
				keys[k] = true
			}
			for k := range keys {
				if ignore[k] {
					continue
				}
				if a[k] != b[k] {
					return false
				}
			}
			return true
		}
		// admissible: the complete table as it was before or after EACH change
		var admissible []deliveries
		for _, st := range states {
			admissible = append(admissible, expected(st.m, st.id))
		}
		okAny := func(g deliveries) bool {
			for _, w := range admissible {
				if eq(g, w) {
					return true
				}
			}
			return false
		}
		// Known finding "cross-level-snapshot": the table-level lists and every route's own configuration are
		// separate atomic snapshots.  When the window holds changes at BOTH levels, a parked dispatcher finishes with
		// what it had loaded (state before all changes) for the levels it had already read and with the final state
		// for everything it reads afterwards - a combination that never existed as a complete table.  The exact
		// combination for this park point:
		var stM []*ref.Model
		var stID []ids
		for _, st := range states {
			stM = append(stM, st.m)
			stID = append(stID, st.id)
		}
		mixed, mixedID, mixedIgnore := mixedModel(stM, stID, point)
		wantMixed := expected(mixed, mixedID)
		eqMixed := func(g deliveries) bool {
			saved := ignore
			ig := map[string]bool{}
			for k := range saved {
				ig[k] = true
			}
			for k := range mixedIgnore {
				ig[k] = true
			}
			ignore = ig
			r := eq(g, wantMixed)
			ignore = saved
			return r
		}
		_, crossKnown := ev.IsKnown("C18", "cross-level-snapshot")
		// An aggregation counts a point when its own goroutine takes it from its (buffered) inbox.  settleAggs makes every
		// live aggregation serve 20 Snapshot requests: each forces one more turn of that goroutine's select while the
		// pending point is ready too, so afterwards the point has been taken except with probability 2^-20.  Without
		// it an observation can match a smaller admissible outcome too early and the late count leaks into the next phase.
		settleAggs := func() {
			for k, a := range aggObjs {
				if deletedAggs[k] {
					continue
				}
				for i := 0; i < 20; i++ {
					a.Snapshot()
				}
			}
		}
		settleAggs()
		got := observe(c0)
		for dl := time.Now().Add(3 * time.Second); !okAny(got) && !(crossKnown && eqMixed(got)) && time.Now().Before(dl); {
			time.Sleep(200 * time.Microsecond)
			settleAggs()
			got = observe(c0)
		}
		if !okAny(got) && crossKnown && len(ops) >= 2 && eqMixed(got) {
			what, _ := ev.IsKnown("C18", "cross-level-snapshot")
			rec.Known("C18", "cross-level-snapshot", what, fmt.Sprintf("park=%s ops=%q observed=%s", point, opDesc, got))
		} else if !okAny(got) {
			var sb strings.Builder
			for i, w := range admissible {
				fmt.Fprintf(&sb, "  under the table after %d of the operations: %s\n", i, w)
			}
			t.Fatalf("metric %q dispatched while %q ran (dispatcher parked at %s, reached=%v):\n  deliveries observed: %s\n%s  table before: %s", line, opDesc, point, reached, got, sb.String(), mb)
		}
		// a metric dispatched after the operations returned sees the new table only
		for _, c := range capObjs {
			c.OnDisp = nil
			c.Reset()
		}
		c0 = h.ReadTableCounters()
		for k, d := range destObjs {
			destBase[k] = h.DestDropNoConn(d.Key)
		}
		settleAggs()
		for k, a := range aggObjs {
			aggBase[k] = h.Count("unit=Metric.direction=in.aggregator=" + a.Key)
		}
		b.Tab.Dispatch([]byte(line))
		settleAggs()
		drained = map[*dest.Destination]*int64{}
		wa := expected(ma, ida)
		got2 := observe(c0)
		for dl := time.Now().Add(3 * time.Second); !eq(got2, wa) && time.Now().Before(dl); {
			time.Sleep(200 * time.Microsecond)
			got2 = observe(c0)
		}
		if !eq(got2, wa) {
			t.Fatalf("metric dispatched AFTER %q returned:\n  deliveries observed: %s\n  under the table after: %s\n  table before: %s", opDesc, got2, wa, mb)
		}
		// the table view reflects the changes
		checkSnapshot(t, b.Tab, ma, opDesc)

		// cleanup
		for k, rt := range routeObjs {
			if _, isCap := capObjs[k]; !isCap && !deletedRoutes[k] {
				rt.Shutdown()
			}
		}
		for k, a := range aggObjs {
			if !deletedAggs[k] {
				a.Shutdown()
			}
		}
		rec.Case(fmt.Sprintf("%s | park=%s reached=%v | %s", mb, point, reached, opDesc), reached && deletedNonLast, fmt.Sprintf("nops=%d", len(ops)), fmt.Sprintf("reached-park=%v", reached), fmt.Sprintf("deleted-non-last=%v", deletedNonLast), "parked-in="+parkedIn, fmt.Sprintf("op-on-parked-route=%v", focused), fmt.Sprintf("op-on-metric-path=%v", pathFocused), fmt.Sprintf("two-changes-on-path-window=%v", pairWindow))
	})
}

// mixedModel: table-level lists as loaded before the window (first state); each route's own configuration from the
// first state if the dispatcher had already read it when it parked, otherwise as the route OBJECT has it at the end of
// the window, i.e. from the last state in which that route still exists (a route deleted later in the window is
// still called through the old route list, with whatever configuration it had when it was deleted).
func mixedModel(ms []*ref.Model, idl []ids, point string) (*ref.Model, ids, map[string]bool) {
	t0, id0 := ms[0], idl[0]
	m := &ref.Model{}
	m.Blacklist = append(m.Blacklist, t0.Blacklist...)
	m.Rewriters = append(m.Rewriters, t0.Rewriters...)
	m.Aggs = append(m.Aggs, t0.Aggs...)
	id := ids{aggs: append([]string(nil), id0.aggs...)}
	ignore := map[string]bool{}
	pos := -1
	parkKey := ""
	if i := strings.IndexByte(point, ':'); i >= 0 {
		parkKey = point[i+1:]
	}
	for p, r := range t0.Routes {
		if r.Key == parkKey {
			pos = p
		}
	}
	// the route as of the last state that still has it
	lastRoute := func(key string) (ref.RouteModel, []string) {
		for s := len(ms) - 1; s >= 0; s-- {
			for i, r := range ms[s].Routes {
				if r.Key == key {
					return r, idl[s].dests[i]
				}
			}
		}
		panic("HARNESS-ERROR: route " + key + " in no state")
	}
	// a destination's filter as of the last state that still has it
	lastDestFilter := func(destID string) (gen.Filter, bool) {
		for s := len(ms) - 1; s >= 0; s-- {
			for ri, ds := range idl[s].dests {
				for j, d := range ds {
					if d == destID {
						return ms[s].Routes[ri].Dests[j].Filter, true
					}
				}
			}
		}
		return gen.Filter{}, false
	}
	for p, r := range t0.Routes {
		switch {
		case p < pos || (p == pos && strings.HasPrefix(point, "capture:")):
			m.Routes = append(m.Routes, r)
			id.routes = append(id.routes, id0.routes[p])
			id.dests = append(id.dests, id0.dests[p])
		case p == pos: // parked right after this carbon route loaded its configuration (filter, destination list, ring)
			rr := r
			rr.Dests = append([]ref.DestModel(nil), r.Dests...)
			for j := range rr.Dests {
				if f, ok := lastDestFilter(id0.dests[p][j]); ok {
					rr.Dests[j].Filter = f // (a destination's own filter is read when the destination is asked)
				}
			}
			m.Routes = append(m.Routes, rr)
			id.routes = append(id.routes, id0.routes[p])
			id.dests = append(id.dests, id0.dests[p])
		default:
			lr, ld := lastRoute(r.Key)
			m.Routes = append(m.Routes, lr)
			id.routes = append(id.routes, id0.routes[p])
			id.dests = append(id.dests, ld)
		}
	}
	return m, id, ignore
}

func contains(s []string, k string) bool {
	for _, x := range s {
		if x == k {
			return true
		}
	}
	return false
}

func uniqueFmts(n int) []string {
	entSeq++
	out := make([]string, n)
	for i := range out {
		out[i] = fmt.Sprintf("c18.agg%d.%d", i, entSeq)
	}
	return out
}

// checkSnapshot: Table.Snapshot() must describe exactly the model's lists, in order.
func checkSnapshot(t *rapid.T, tab *table.Table, m *ref.Model, after string) {
	s := tab.Snapshot()
	var got, want []string
	for _, b := range s.Blacklist {
		got = append(got, "bl"+gen.Filter{Prefix: b.Prefix, NotPrefix: b.NotPrefix, Sub: b.Sub, NotSub: b.NotSub, Regex: b.Regex, NotRegex: b.NotRegex}.String())
	}
	for _, b := range m.Blacklist {
		want = append(want, "bl"+b.String())
	}
	for _, r := range s.Rewriters {
		got = append(got, "rw"+ref.RW{Old: r.Old, New: r.New, Not: r.Not, Max: r.Max}.String())
	}
	for _, r := range m.Rewriters {
		want = append(want, "rw"+r.String())
	}
	for _, a := range s.Aggregators {
		mm := a.Matcher
		got = append(got, "agg"+gen.Filter{Prefix: mm.Prefix, NotPrefix: mm.NotPrefix, Sub: mm.Sub, NotSub: mm.NotSub, Regex: mm.Regex, NotRegex: mm.NotRegex}.String())
	}
	for _, a := range m.Aggs {
		want = append(want, "agg"+a.Filter.String())
	}
	for _, r := range s.Routes {
		mm := r.Matcher
		e := "route " + r.Key + gen.Filter{Prefix: mm.Prefix, NotPrefix: mm.NotPrefix, Sub: mm.Sub, NotSub: mm.NotSub, Regex: mm.Regex, NotRegex: mm.NotRegex}.String()
		for _, d := range r.Dests {
			dm := d.Matcher
			e += " dest" + gen.Filter{Prefix: dm.Prefix, NotPrefix: dm.NotPrefix, Sub: dm.Sub, NotSub: dm.NotSub, Regex: dm.Regex, NotRegex: dm.NotRegex}.String()
		}
		got = append(got, e)
	}
	for _, r := range m.Routes {
		e := "route " + r.Key + r.Filter.String()
		for _, d := range r.Dests {
			e += " dest" + d.Filter.String()
		}
		want = append(want, e)
	}
	if fmt.Sprint(got) != fmt.Sprint(want) {
		t.Fatalf("after %q the table view is\n  %q\nthe sequence of changes applied gives\n  %q", after, got, want)
	}
}

var _ = matcher.Matcher{}

// ---- G1: sequential admin histories vs a model of the four lists ------------------------------------

func TestPropAdminHistory(t *testing.T) {
	rec := ev.Get("admin_history")
	rapid.Check(t, func(t *rapid.T) {
		m := &ref.Model{}
		b := ref.Build(m, ref.BuildOpts{InBuf: 10})
		tab := b.Tab
		var realRoutes = map[string]route.Route{}
		var aggs []*aggregator.Aggregator
		var hist []string
		rejected, noop, delMid := false, false, false
		seq := 0
		t.Repeat(watched(&hist, map[string]func(*rapid.T){
			"addRoute": func(t *rapid.T) {
				seq++
				key := fmt.Sprintf("k%d", seq)
				f := genF(t, "f", 30)
				if rapid.Bool().Draw(t, "real") {
					var ds []*dest.Destination
					var dms []ref.DestModel
					for j, n := 0, rapid.IntRange(1, 3).Draw(t, "nd"); j < n; j++ {
						df := genF(t, "df", 30)
						ds = append(ds, h.CounterDest(key, df.MustMatcher(), j))
						dms = append(dms, ref.DestModel{Filter: df})
					}
					rt, err := route.NewSendAllMatch(key, f.MustMatcher(), ds)
					if err != nil {
						t.Fatalf("HARNESS-ERROR: %v", err)
					}
					realRoutes[key] = rt
					tab.AddRoute(rt)
					m.Routes = append(m.Routes, ref.RouteModel{Key: key, Type: "sendAllMatch", Filter: f, Dests: dms})
				} else {
					tab.AddRoute(h.NewCaptureRoute(key, f.MustMatcher()))
					m.Routes = append(m.Routes, ref.RouteModel{Key: key, Type: "capture", Filter: f})
				}
				hist = append(hist, "addRoute "+key)
			},
			"delRoute": func(t *rapid.T) {
				key := "unknown-key"
				idx := -1
				if len(m.Routes) > 0 && rapid.IntRange(0, 3).Draw(t, "known") > 0 {
					idx = rapid.IntRange(0, len(m.Routes)-1).Draw(t, "idx")
					key = m.Routes[idx].Key
				}
				if err := tab.DelRoute(key); err != nil {
					t.Fatalf("DelRoute(%q): %v", key, err)
				}
				if idx >= 0 {
					if idx < len(m.Routes)-1 {
						delMid = true
					}
					m.Routes = append(m.Routes[:idx:idx], m.Routes[idx+1:]...)
					delete(realRoutes, key)
				} else {
					noop = true
				}
				hist = append(hist, "delRoute "+key)
			},
			"addBlack": func(t *rapid.T) {
				f := genF(t, "f", 50)
				if f.IsEmpty() {
					f.Sub = "zzz"
				}
				mm := f.MustMatcher()
				tab.AddBlacklist(&mm)
				m.Blacklist = append(m.Blacklist, f)
				hist = append(hist, "addBlack")
			},
			"delBlack": func(t *rapid.T) {
				i := rapid.IntRange(0, len(m.Blacklist)+2).Draw(t, "idx")
				err := tab.DelBlacklist(i)
				if i >= len(m.Blacklist) {
					if err == nil {
						t.Fatalf("DelBlacklist(%d) with %d entries did not return an error; history %v", i, len(m.Blacklist), hist)
					}
					rejected = true
				} else {
					if err != nil {
						t.Fatalf("DelBlacklist(%d): %v", i, err)
					}
					if i < len(m.Blacklist)-1 {
						delMid = true
					}
					m.Blacklist = append(m.Blacklist[:i:i], m.Blacklist[i+1:]...)
				}
				hist = append(hist, fmt.Sprintf("delBlack %d", i))
			},
			"addRewriter": func(t *rapid.T) {
				r := ref.GenRW(t)
				rw, err := r.Real()
				if err != nil {
					t.Fatalf("HARNESS-ERROR: %v", err)
				}
				tab.AddRewriter(rw)
				m.Rewriters = append(m.Rewriters, r)
				hist = append(hist, "addRewriter")
			},
			"delRewriter": func(t *rapid.T) {
				i := rapid.IntRange(0, len(m.Rewriters)+2).Draw(t, "idx")
				err := tab.DelRewriter(i)
				if i >= len(m.Rewriters) {
					if err == nil {
						t.Fatalf("DelRewriter(%d) with %d entries did not return an error; history %v", i, len(m.Rewriters), hist)
					}
					rejected = true
				} else {
					if err != nil {
						t.Fatalf("DelRewriter(%d): %v", i, err)
					}
					if i < len(m.Rewriters)-1 {
						delMid = true
					}
					m.Rewriters = append(m.Rewriters[:i:i], m.Rewriters[i+1:]...)
				}
				hist = append(hist, fmt.Sprintf("delRewriter %d", i))
			},
			"addAgg": func(t *rapid.T) {
				seq++
				f := genF(t, "f", 30)
				if f.Regex == "" {
					f.Regex = "."
				}
				ag, err := aggregator.NewMocked("sum", f.MustMatcher(), fmt.Sprintf("h%d", seq), false, 10, 100, false, b.AggOut, 10, time.Now, make(chan time.Time))
				if err != nil {
					t.Fatalf("HARNESS-ERROR: %v", err)
				}
				tab.AddAggregator(ag)
				aggs = append(aggs, ag)
				m.Aggs = append(m.Aggs, ref.AggModel{Filter: f})
				hist = append(hist, "addAgg")
			},
			"delAgg": func(t *rapid.T) {
				i := rapid.IntRange(0, len(m.Aggs)+2).Draw(t, "idx")
				err := tab.DelAggregator(i)
				if i >= len(m.Aggs) {
					if err == nil {
						t.Fatalf("DelAggregator(%d) with %d entries did not return an error; history %v", i, len(m.Aggs), hist)
					}
					rejected = true
				} else {
					if err != nil {
						t.Fatalf("DelAggregator(%d): %v", i, err)
					}
					if i < len(m.Aggs)-1 {
						delMid = true
					}
					m.Aggs = append(m.Aggs[:i:i], m.Aggs[i+1:]...)
					aggs = append(aggs[:i:i], aggs[i+1:]...)
				}
				hist = append(hist, fmt.Sprintf("delAgg %d", i))
			},
			"delDest": func(t *rapid.T) {
				key := "unknown-key"
				ri := -1
				for i, r := range m.Routes {
					if r.Type != "capture" && rapid.Bool().Draw(t, "pick") {
						ri, key = i, r.Key
						break
					}
				}
				n := 0
				if ri >= 0 {
					n = len(m.Routes[ri].Dests)
				}
				j := rapid.IntRange(0, n+1).Draw(t, "didx")
				err := tab.DelDestination(key, j)
				if ri < 0 || j >= n {
					if err == nil {
						t.Fatalf("DelDestination(%q, %d) (route known=%v, %d destinations) did not return an error; history %v", key, j, ri >= 0, n, hist)
					}
					rejected = true
				} else {
					if err != nil {
						t.Fatalf("DelDestination(%q,%d): %v", key, j, err)
					}
					if j < n-1 {
						delMid = true
					}
					m.Routes[ri].Dests = append(m.Routes[ri].Dests[:j:j], m.Routes[ri].Dests[j+1:]...)
				}
				hist = append(hist, fmt.Sprintf("delDest %s %d", key, j))
			},
			"modRoute": func(t *rapid.T) {
				if len(m.Routes) == 0 {
					err := tab.UpdateRoute("unknown-key", map[string]string{"prefix": "x"})
					if err == nil {
						t.Fatalf("UpdateRoute on an unknown route did not return an error")
					}
					rejected = true
					return
				}
				ri := rapid.IntRange(0, len(m.Routes)-1).Draw(t, "ridx")
				opts, bad := genModOpts(t)
				err := tab.UpdateRoute(m.Routes[ri].Key, opts)
				if bad {
					if err == nil {
						t.Fatalf("UpdateRoute(%v) did not return an error", opts)
					}
					rejected = true // all or nothing: the model stays as it is
				} else {
					if err != nil {
						t.Fatalf("UpdateRoute(%v): %v", opts, err)
					}
					for opt, val := range opts {
						setOpt(&m.Routes[ri].Filter, opt, val)
					}
				}
				hist = append(hist, fmt.Sprintf("modRoute %s %v", m.Routes[ri].Key, opts))
			},
			"modDest": func(t *rapid.T) {
				ri := -1
				for i, r := range m.Routes {
					if r.Type != "capture" && len(r.Dests) > 0 {
						ri = i
					}
				}
				if ri < 0 {
					t.Skip("no carbon route with destinations")
				}
				n := len(m.Routes[ri].Dests)
				j := rapid.IntRange(0, n).Draw(t, "didx")
				opts, bad := genModOpts(t)
				err := tab.UpdateDestination(m.Routes[ri].Key, j, opts)
				bad = bad || j >= n
				if bad {
					if err == nil {
						t.Fatalf("UpdateDestination(%d, %v) with %d destinations did not return an error", j, opts, n)
					}
					rejected = true // all or nothing: the model stays as it is
				} else {
					if err != nil {
						t.Fatalf("UpdateDestination(%d, %v): %v", j, opts, err)
					}
					for opt, val := range opts {
						setOpt(&m.Routes[ri].Dests[j].Filter, opt, val)
					}
				}
				hist = append(hist, fmt.Sprintf("modDest %s %d %v", m.Routes[ri].Key, j, opts))
			},
			"": func(t *rapid.T) {
				checkSnapshot(t, tab, m, strings.Join(hist, "; "))
			},
		}))
		for _, rt := range realRoutes {
			rt.Shutdown()
		}
		for _, a := range aggs {
			a.Shutdown()
		}
		rec.Case(strings.Join(hist, "; "), rejected && delMid, fmt.Sprintf("rejected-op=%v", rejected), fmt.Sprintf("unknown-route-noop=%v", noop), fmt.Sprintf("deleted-non-last=%v", delMid))
	})
}

// genModOpts: 1-3 distinct options of one modRoute / modDest request; bad: the request as a whole must be refused
// (an unknown option or a regex that does not compile anywhere in it) and must then change NOTHING.
func genModOpts(t *rapid.T) (map[string]string, bool) {
	opts := map[string]string{}
	bad := false
	for i, n := 0, rapid.SampledFrom([]int{1, 1, 2, 2, 3}).Draw(t, "nopts"); i < n; i++ {
		opt := rapid.SampledFrom([]string{"prefix", "notPrefix", "sub", "notSub", "regex", "notRegex", "bogus"}).Draw(t, "opt")
		if _, dup := opts[opt]; dup {
			continue
		}
		val := rapid.SampledFrom([]string{"foo", "", "ba", "^a", "(unclosed", "other."}).Draw(t, "val")
		opts[opt] = val
		if opt == "bogus" || ((opt == "regex" || opt == "notRegex") && val == "(unclosed") {
			bad = true
		}
	}
	return opts, bad
}

func setOpt(f *gen.Filter, opt, val string) {
	switch opt {
	case "prefix":
		f.Prefix = val
	case "notPrefix":
		f.NotPrefix = val
	case "sub":
		f.Sub = val
	case "notSub":
		f.NotSub = val
	case "regex":
		f.Regex = val
	case "notRegex":
		f.NotRegex = val
	}
}

// ---- G3: concurrent dispatchers vs admin operations (run with and without -race) --------------------
//
// Permanent catch-all capture routes sit between volatile entries that are
// added and deleted while traffic flows: every permanent route must receive
// every metric exactly once.

func TestPropConcurrentChurn(t *testing.T) {
	rec := ev.Get("concurrent_churn")
	rapid.Check(t, func(t *rapid.T) {
		tab := h.NewTable(false)
		nperm := rapid.IntRange(2, 4).Draw(t, "nperm")
		var perm []*h.CaptureRoute
		seq := 0
		addVolatile := func() string {
			seq++
			k := fmt.Sprintf("v%d", seq)
			tab.AddRoute(h.NewCaptureRoute(k, gen.Filter{}.MustMatcher()))
			return k
		}
		var vol []string
		for i := 0; i < nperm; i++ {
			vol = append(vol, addVolatile())
			c := h.NewCaptureRoute(fmt.Sprintf("perm%d", i), matcher.Matcher{})
			perm = append(perm, c)
			tab.AddRoute(c)
			vol = append(vol, addVolatile())
		}
		// a real route whose destinations come and go, with one permanent destination
		permDest := h.CounterDest("c18stress", matcher.Matcher{}, 0)
		d1 := h.CounterDest("c18stress", matcher.Matcher{}, 1)
		d2 := h.CounterDest("c18stress", matcher.Matcher{}, 2)
		rt, err := route.NewSendAllMatch("c18stress", matcher.Matcher{}, []*dest.Destination{d1, permDest, d2})
		if err != nil {
			t.Fatalf("HARNESS-ERROR: %v", err)
		}
		tab.AddRoute(rt)
		defer rt.Shutdown()
		base := h.DestDropNoConn(permDest.Key)
		nblack, nrw := 0, 0
		ndisp := rapid.IntRange(2, 6).Draw(t, "dispatchers")
		per := rapid.IntRange(200, 800).Draw(t, "perDispatcher")
		nops := rapid.IntRange(20, 120).Draw(t, "nops")
		type opT struct {
			kind string
			idx  int
		}
		ops := make([]opT, nops)
		for i := range ops {
			ops[i] = opT{rapid.SampledFrom([]string{"delRoute", "addRoute", "addBlack", "delBlack", "addRewriter", "delRewriter", "delDest", "addDest"}).Draw(t, "op"), rapid.IntRange(0, 7).Draw(t, "idx")}
		}
		var wg sync.WaitGroup
		start := make(chan struct{})
		for g := 0; g < ndisp; g++ {
			wg.Add(1)
			go func(g int) {
				defer wg.Done()
				<-start
				for i := 0; i < per; i++ {
					tab.Dispatch([]byte(fmt.Sprintf("m.g%d.i%d 1 1500000000", g, i)))
				}
			}(g)
		}
		wg.Add(1)
		extraDests := 2
		destSeq := 10
		var leftovers []*dest.Destination
		var lmu sync.Mutex
		go func() {
			defer wg.Done()
			<-start
			for _, o := range ops {
				switch o.kind {
				case "addRoute":
					vol = append(vol, addVolatile())
				case "delRoute":
					if len(vol) > 0 {
						i := o.idx % len(vol)
						tab.DelRoute(vol[i])
						vol = append(vol[:i:i], vol[i+1:]...)
					}
				case "addBlack":
					mm, _ := matcher.New("nomatch.", "", "", "", "", "")
					tab.AddBlacklist(&mm)
					nblack++
				case "delBlack":
					if nblack > 0 {
						tab.DelBlacklist(o.idx % nblack)
						nblack--
					}
				case "addRewriter":
					rw, _ := ref.RW{Old: "nomatch", New: "x", Max: -1}.Real()
					tab.AddRewriter(rw)
					nrw++
				case "delRewriter":
					if nrw > 0 {
						tab.DelRewriter(o.idx % nrw)
						nrw--
					}
				case "addDest":
					destSeq++
					nd := h.CounterDest("c18stress", matcher.Matcher{}, destSeq)
					rt.(*route.SendAllMatch).Add(nd)
					extraDests++
				case "delDest":
					// never the permanent one: find its current index from the snapshot and delete another
					snap := rt.Snapshot()
					for i, d := range snap.Dests {
						if d.Key != permDest.Key && (o.idx%2 == 0 || i > 0) {
							if dd, err := rt.GetDestination(i); err == nil {
								lmu.Lock()
								leftovers = append(leftovers, dd)
								lmu.Unlock()
							}
							rt.DelDestination(i)
							extraDests--
							break
						}
					}
				}
				time.Sleep(time.Duration(o.idx*20) * time.Microsecond)
			}
		}()
		// drain hand-offs to deleted destinations so that a dispatcher holding an old snapshot cannot block forever
		stop := make(chan struct{})
		go func() {
			for {
				select {
				case <-stop:
					return
				default:
				}
				lmu.Lock()
				ls := append([]*dest.Destination(nil), leftovers...)
				lmu.Unlock()
				for _, d := range ls {
					select {
					case <-d.In:
					default:
					}
				}
				time.Sleep(50 * time.Microsecond)
			}
		}()
		close(start)
		done := make(chan struct{})
		go func() { wg.Wait(); close(done) }()
		select {
		case <-done:
		case <-time.After(60 * time.Second):
			close(stop)
			t.Fatalf("dispatchers / admin operations did not finish within 60s")
		}
		close(stop)
		total := ndisp * per
		for i, c := range perm {
			lines := c.Lines()
			seen := map[string]int{}
			for _, l := range lines {
				seen[l]++
			}
			for l, n := range seen {
				if n != 1 {
					t.Fatalf("permanent route perm%d received %q %d times while routes were added/deleted around it", i, l, n)
				}
			}
			if len(seen) != total {
				t.Fatalf("permanent route perm%d received %d of %d metrics while routes were added/deleted around it", i, len(seen), total)
			}
		}
		rt.Flush()
		if got := h.DestDropNoConn(permDest.Key) - base; got != int64(total) {
			t.Fatalf("the permanent destination was handed %d of %d metrics while other destinations of its route were added/deleted", got, total)
		}
		rec.Case(fmt.Sprintf("perm=%d disp=%d per=%d ops=%v", nperm, ndisp, per, ops), true, fmt.Sprintf("dispatchers=%d", ndisp))
	})
}

// watched wraps the actions of a purely sequential admin history (no traffic, no I/O): an operation that has not
// returned after 30 s never will (each takes microseconds).  The history cannot be continued then, so "the table view
// reflects exactly the sequence of changes applied" fails for every later change; rapid cannot be told from another
// goroutine, so the watchdog reports through the driver's marker and ends the process.
func watched(hist *[]string, actions map[string]func(*rapid.T)) map[string]func(*rapid.T) {
	out := map[string]func(*rapid.T){}
	for name, f := range actions {
		name, f := name, f
		out[name] = func(t *rapid.T) {
			done := make(chan struct{})
			go func() {
				select {
				case <-done:
				case <-time.After(30 * time.Second):
					buf := make([]byte, 1<<16)
					fmt.Fprintf(os.Stderr, "VERIF-VIOLATION: admin operation %q did not return within 30 s in a sequential history without traffic; operations completed before it: %q\n%s\n", name, *hist, buf[:runtime.Stack(buf, true)])
					os.Exit(1)
				}
			}()
			defer close(done)
			f(t)
		}
	}
	return out
}
