// C18 — several admin connections at once.  "The table view reflects exactly the sequence of changes applied": four
// admin goroutines change the table at the same time, each one the only writer of its own list (routes by key,
// blacklist / rewriters / aggregations by index), so the final content of every list is fixed by its writer's own
// sequence of acknowledged changes whatever the interleaving; a change acknowledged to one connection must not be
// undone by a change made on another.
package c18

import (
	"fmt"
	"strings"
	"sync"
	"testing"
	"time"

	"github.com/grafana/carbon-relay-ng/aggregator"
	"github.com/grafana/carbon-relay-ng/matcher"
	"pgregory.net/rapid"

	"verifharness/internal/ev"
	"verifharness/internal/gen"
	"verifharness/internal/h"
	"verifharness/internal/ref"
)

func TestPropConcurrentAdmins(t *testing.T) {
	rec := ev.Get("concurrent_admins")
	rapid.Check(t, func(t *rapid.T) {
		tab := h.NewTable(false)
		m := &ref.Model{}
		aggOut := make(chan []byte, 100000)
		type step struct {
			desc string
			do   func() error
		}
		plans := make([][]step, 4)
		nsteps := rapid.IntRange(5, 40).Draw(t, "steps")
		// writer 0: routes (capture routes, by key)
		var liveRoutes []string
		for i := 0; i < nsteps; i++ {
			entSeq++
			if len(liveRoutes) > 0 && rapid.IntRange(0, 2).Draw(t, "rdel") == 0 {
				j := rapid.IntRange(0, len(liveRoutes)-1).Draw(t, "ridx")
				key := liveRoutes[j]
				liveRoutes = append(liveRoutes[:j:j], liveRoutes[j+1:]...)
				m.Routes = append(m.Routes[:j:j], m.Routes[j+1:]...)
				plans[0] = append(plans[0], step{"delRoute " + key, func() error { return tab.DelRoute(key) }})
			} else {
				key := fmt.Sprintf("ca%d", entSeq)
				f := genF(t, "croute", 30)
				c := h.NewCaptureRoute(key, f.MustMatcher())
				liveRoutes = append(liveRoutes, key)
				m.Routes = append(m.Routes, ref.RouteModel{Key: key, Type: "capture", Filter: f})
				plans[0] = append(plans[0], step{"addRoute " + key, func() error { tab.AddRoute(c); return nil }})
			}
		}
		// writer 1: blacklist (by index)
		for i := 0; i < nsteps; i++ {
			if len(m.Blacklist) > 0 && rapid.IntRange(0, 2).Draw(t, "bdel") == 0 {
				j := rapid.IntRange(0, len(m.Blacklist)-1).Draw(t, "bidx")
				m.Blacklist = append(m.Blacklist[:j:j], m.Blacklist[j+1:]...)
				plans[1] = append(plans[1], step{fmt.Sprintf("delBlack %d", j), func() error { return tab.DelBlacklist(j) }})
			} else {
				f := gen.Filter{Prefix: fmt.Sprintf("never%d", rapid.IntRange(0, 999).Draw(t, "bval"))}
				mm := f.MustMatcher()
				m.Blacklist = append(m.Blacklist, f)
				plans[1] = append(plans[1], step{"addBlack " + f.String(), func() error { tab.AddBlacklist(&mm); return nil }})
			}
		}
		// writer 2: rewriters (by index)
		for i := 0; i < nsteps; i++ {
			if len(m.Rewriters) > 0 && rapid.IntRange(0, 2).Draw(t, "wdel") == 0 {
				j := rapid.IntRange(0, len(m.Rewriters)-1).Draw(t, "widx")
				m.Rewriters = append(m.Rewriters[:j:j], m.Rewriters[j+1:]...)
				plans[2] = append(plans[2], step{fmt.Sprintf("delRewriter %d", j), func() error { return tab.DelRewriter(j) }})
			} else {
				r := ref.RW{Old: fmt.Sprintf("never%d", rapid.IntRange(0, 999).Draw(t, "wval")), New: "x", Max: -1}
				rw, err := r.Real()
				if err != nil {
					t.Fatalf("HARNESS-ERROR: %v", err)
				}
				m.Rewriters = append(m.Rewriters, r)
				plans[2] = append(plans[2], step{"addRewriter " + r.String(), func() error { tab.AddRewriter(rw); return nil }})
			}
		}
		// writer 3: aggregations (by index); each holds a few points, so that deleting it has something to flush
		for i := 0; i < nsteps; i++ {
			if len(m.Aggs) > 0 && rapid.IntRange(0, 1).Draw(t, "adel") == 0 {
				j := rapid.IntRange(0, len(m.Aggs)-1).Draw(t, "aidx")
				m.Aggs = append(m.Aggs[:j:j], m.Aggs[j+1:]...)
				plans[3] = append(plans[3], step{fmt.Sprintf("delAgg %d", j), func() error { return tab.DelAggregator(j) }})
			} else {
				entSeq++
				f := gen.Filter{Regex: fmt.Sprintf("^c18agg%d\\.(.*)", entSeq)}
				npts := rapid.IntRange(0, 40).Draw(t, "apoints")
				seq := entSeq
				m.Aggs = append(m.Aggs, ref.AggModel{Filter: f})
				plans[3] = append(plans[3], step{"addAgg " + f.String(), func() error {
					now := time.Now()
					ag, err := aggregator.NewMocked("sum", f.MustMatcher(), fmt.Sprintf("c18out%d.$1", seq), false, 10, 100, false, aggOut, 100, func() time.Time { return now }, make(chan time.Time))
					if err != nil {
						return err
					}
					for p := 0; p < npts; p++ {
						ag.AddMaybe([][]byte{[]byte(fmt.Sprintf("c18agg%d.s%d", seq, p)), []byte("1"), []byte(fmt.Sprint(now.Unix()))}, 1, uint32(now.Unix()))
					}
					tab.AddAggregator(ag)
					return nil
				}})
			}
		}
		errs := make(chan string, 8)
		start := make(chan struct{})
		var wg sync.WaitGroup
		for w := range plans {
			wg.Add(1)
			go func(w int) {
				defer wg.Done()
				<-start
				for _, st := range plans[w] {
					if err := st.do(); err != nil {
						errs <- fmt.Sprintf("admin connection %d: %q failed: %v", w, st.desc, err)
						return
					}
				}
			}(w)
		}
		close(start)
		wg.Wait()
		var hist []string
		for w, p := range plans {
			var ds []string
			for _, st := range p {
				ds = append(ds, st.desc)
			}
			hist = append(hist, fmt.Sprintf("connection %d: %s", w, strings.Join(ds, "; ")))
		}
		select {
		case e := <-errs:
			t.Fatalf("%s\n(each connection is the only writer of its list, so every index it uses is valid)\n%s", e, strings.Join(hist, "\n"))
		default:
		}
		checkSnapshot(t, tab, m, "four admin connections at once:\n"+strings.Join(hist, "\n"))
		for tab.DelAggregator(0) == nil {
		}
		rec.Case(strings.Join(hist, " | "), nsteps >= 10, fmt.Sprintf("steps-per-connection>=10=%v", nsteps >= 10))
	})
}

var _ = matcher.Matcher{}
