// C19 — order validation accepts a point only if it is newer than all accepted before.
package c19

import (
	"fmt"
	"sort"
	"strings"
	"sync"
	"testing"
	"time"

	"github.com/anishathalye/porcupine"
	"github.com/grafana/carbon-relay-ng/aggregator"
	"github.com/grafana/carbon-relay-ng/matcher"
	"pgregory.net/rapid"

	"verifharness/internal/ev"
	"verifharness/internal/h"
)

func TestMain(m *testing.M) { h.Init(); ev.Main(m) }

type opT struct {
	series int    // index of the series (name modulo one leading dot)
	name   string // as sent (with or without the leading dot)
	ts     uint32
	id     int
	// observed
	call, ret int64
	accepted  bool
	client    int
}

type regIn struct{ ts uint32 }

var maxRegister = porcupine.Model{
	Init: func() interface{} { return uint32(0) },
	Step: func(state, input, output interface{}) (bool, interface{}) {
		cur := state.(uint32)
		ts := input.(regIn).ts
		acc := output.(bool)
		if acc != (ts > cur) {
			return false, state
		}
		if acc {
			return true, ts
		}
		return true, cur
	},
	Equal: func(a, b interface{}) bool { return a.(uint32) == b.(uint32) },
}

var caseNo int
var t0 = time.Now()

// series of one case differ in shape: plain, tagged, metrics2.0, long, and one that is a prefix of another
var seriesSuffix = []string{"", ";dc=eu;host=a", ".unit=B.mtype=gauge", "." + strings.Repeat("long", 40), ".x"}

func TestPropOrdered(t *testing.T) {
	rec := ev.Get("ordered")
	rapid.Check(t, func(t *rapid.T) {
		caseNo++
		tab := h.NewTable(true)
		cap := h.NewCaptureRoute("cap", matcher.Matcher{})
		tab.AddRoute(cap)
		// in half of the cases a catch-all aggregation sits in front of the routes: a point rejected for its order reaches
		// nothing, so the aggregation must see exactly the accepted points
		var agg *aggregator.Aggregator
		var aggIn0 int64
		if rapid.Bool().Draw(t, "aggregation") {
			am, _ := matcher.New("", "", "", "", "(?s).*", "")
			var err error
			agg, err = aggregator.NewMocked("count", am, "c19agg", false, 10, 100, false, make(chan []byte, 100000), 0, time.Now, make(chan time.Time))
			if err != nil {
				t.Fatalf("HARNESS-ERROR: %v", err)
			}
			defer agg.Shutdown()
			tab.AddAggregator(agg)
			aggIn0 = h.Count("unit=Metric.direction=in.aggregator=" + agg.Key)
		}
		nseries := rapid.IntRange(1, 4).Draw(t, "nseries")
		ngor := rapid.IntRange(1, 8).Draw(t, "goroutines")
		prefix := fmt.Sprintf("c19.p%d.c%d.", pid(), caseNo)
		var ops []*opT
		shape := rapid.SampledFrom([]int{0, 0, 1, 2}).Draw(t, "nameshape")
		// a crowd of other names (each seen once) dispatched between the first and the second half of every goroutine's
		// points: per-name state must survive any number of other names
		crowd := rapid.SampledFrom([]int{0, 0, 0, 0, 300, 3000}).Draw(t, "crowd")
		tsPool := []uint32{0, 1, 2, 3, 5, 5, 7, 10, 100, 1500000000, 1500000001, 4294967295, 4294967294}
		for s := 0; s < nseries; s++ {
			n := rapid.IntRange(1, 10).Draw(t, "nops")
			style := rapid.IntRange(0, 3).Draw(t, "style")
			base := uint32(rapid.IntRange(1, 1000).Draw(t, "base"))
			for i := 0; i < n; i++ {
				var ts uint32
				switch style {
				case 0: // increasing
					ts = base + uint32(i)
				case 1: // decreasing
					ts = base + uint32(n-i)
				case 2: // with repeats
					ts = base + uint32(i/2)
				default:
					ts = rapid.SampledFrom(tsPool).Draw(t, "ts")
				}
				name := fmt.Sprintf("%ss%d%s", prefix, s, seriesSuffix[s%len(seriesSuffix)])
				switch shape {
				case 1: // all series of the case share a 320-byte prefix and differ in the last bytes only
					name = prefix + strings.Repeat("seg.", 80) + fmt.Sprintf("s%d", s)
				case 2: // same name before the first ';', different tag values
					name = fmt.Sprintf("%sshared;dc=eu;n=%d", prefix, s)
				}
				if rapid.IntRange(0, 3).Draw(t, "dot") == 0 {
					name = "." + name
				}
				ops = append(ops, &opT{series: s, name: name, ts: ts, id: len(ops)})
			}
		}
		// deal the operations among the goroutines (keeping the per-goroutine order of generation)
		perG := make([][]*opT, ngor)
		for _, o := range ops {
			g := rapid.IntRange(0, ngor-1).Draw(t, "g")
			o.client = g
			perG[g] = append(perG[g], o)
		}
		before := h.ReadTableCounters()
		stage := func(half int) {
			var wg sync.WaitGroup
			start := make(chan struct{})
			for g := 0; g < ngor; g++ {
				mine := perG[g][:len(perG[g])/2]
				if half == 1 {
					mine = perG[g][len(perG[g])/2:]
				}
				wg.Add(1)
				go func(mine []*opT) {
					defer wg.Done()
					<-start
					for _, o := range mine {
						line := []byte(fmt.Sprintf("%s %d %d", o.name, o.id, o.ts))
						o.call = time.Since(t0).Nanoseconds()
						tab.Dispatch(line)
						o.ret = time.Since(t0).Nanoseconds()
					}
				}(mine)
			}
			close(start)
			wg.Wait()
		}
		stage(0)
		for i := 0; i < crowd; i++ {
			tab.Dispatch([]byte(fmt.Sprintf("%scrowd.n%d 0 %d", prefix, i, 1500000000+i)))
		}
		stage(1)
		// which calls were forwarded?  (the capture route runs synchronously inside Dispatch)
		got := map[string]int{}
		for _, l := range cap.Lines() {
			got[l]++
		}
		nAcc := 0
		for _, o := range ops {
			// the forwarded line may or may not keep the leading dot
			k1 := fmt.Sprintf("%s %d %d", o.name, o.id, o.ts)
			k2 := fmt.Sprintf("%s %d %d", strings.TrimPrefix(o.name, "."), o.id, o.ts)
			c := got[k1]
			if k2 != k1 {
				c += got[k2]
			}
			if c > 1 {
				t.Fatalf("point %q forwarded %d times", k1, c)
			}
			o.accepted = c == 1
			if o.accepted {
				nAcc++
			}
		}
		for i := 0; i < crowd; i++ {
			if got[fmt.Sprintf("%scrowd.n%d 0 %d", prefix, i, 1500000000+i)] != 1 {
				t.Fatalf("the only point of name %scrowd.n%d was not forwarded exactly once", prefix, i)
			}
		}
		if len(cap.Lines()) != nAcc+crowd {
			t.Fatalf("capture route received %d lines, %d of them ours", len(cap.Lines()), nAcc+crowd)
		}
		hist := describe(ops)
		// necessary conditions first: accepted timestamps of a series pairwise distinct; a
		// positive timestamp newer than every other point of the series is never rejected
		for s := 0; s < nseries; s++ {
			seen := map[uint32]bool{}
			var maxOther uint32
			for _, o := range ops {
				if o.series != s {
					continue
				}
				if o.accepted {
					if seen[o.ts] {
						t.Fatalf("series %d: timestamp %d accepted twice; history %s", s, o.ts, hist)
					}
					seen[o.ts] = true
				}
			}
			for _, o := range ops {
				if o.series != s {
					continue
				}
				maxOther = 0
				cnt := 0
				for _, p := range ops {
					if p.series == s && p != o {
						if p.ts >= maxOther {
							maxOther = p.ts
						}
						if p.ts == o.ts {
							cnt++
						}
					}
				}
				if o.ts > 0 && o.ts > maxOther && cnt == 0 && !o.accepted {
					t.Fatalf("series %d: point with timestamp %d is newer than every other point of its series but was rejected; history %s", s, o.ts, hist)
				}
			}
		}
		// linearizability w.r.t. a max-register, per series
		for s := 0; s < nseries; s++ {
			var h []porcupine.Operation
			for _, o := range ops {
				if o.series == s {
					h = append(h, porcupine.Operation{ClientId: o.client, Input: regIn{o.ts}, Call: o.call, Output: o.accepted, Return: o.ret})
				}
			}
			res := porcupine.CheckOperationsTimeout(maxRegister, h, 20*time.Second)
			if res == porcupine.Illegal {
				t.Fatalf("series %d: accept/reject decisions are not linearizable w.r.t. 'accept iff ts > max accepted so far'; history %s", s, hist)
			}
		}
		if agg != nil {
			h.AggBarrier(agg)
			if n := h.Count("unit=Metric.direction=in.aggregator="+agg.Key) - aggIn0; int(n) != nAcc+crowd {
				t.Fatalf("the catch-all aggregation received %d points, %d were accepted (a point rejected for its order must reach nothing); history %s", n, nAcc+crowd, hist)
			}
		}
		// accounting: every rejection counted as out-of-order, none as invalid
		d := h.ReadTableCounters().Sub(before)
		if int(d.In) != len(ops)+crowd || int(d.OutOfOrder) != len(ops)-nAcc || d.Invalid != 0 {
			t.Fatalf("counters: in=%d out_of_order=%d invalid=%d for %d points of which %d accepted; history %s", d.In, d.OutOfOrder, d.Invalid, len(ops), nAcc, hist)
		}
		// every series with a rejection shows up in the bad-metrics report with the reason
		rejectedSeries := map[string]bool{}
		for _, o := range ops {
			if !o.accepted {
				rejectedSeries[strings.TrimPrefix(o.name, ".")] = true
			}
		}
		if len(rejectedSeries) > 0 {
			deadline := time.Now().Add(10 * time.Second)
			for {
				found := map[string]string{}
				for _, r := range tab.Bad().Get(time.Hour) {
					if rejectedSeries[r.Metric] {
						found[r.Metric] = r.LastErr
					}
				}
				if len(found) == len(rejectedSeries) {
					for m, e := range found {
						if !strings.Contains(e, "not newer") {
							t.Fatalf("bad-metrics report for %q has reason %q", m, e)
						}
					}
					break
				}
				if time.Now().After(deadline) {
					t.Fatalf("rejected series %v not all visible in the bad-metrics report (found %v)", rejectedSeries, found)
				}
				time.Sleep(200 * time.Microsecond)
			}
		}
		// non-trivial: a series operated on by >=2 goroutines with an equal or decreasing timestamp
		nt := false
		for s := 0; s < nseries; s++ {
			gs := map[int]bool{}
			var tss []uint32
			for _, o := range ops {
				if o.series == s {
					gs[o.client] = true
					tss = append(tss, o.ts)
				}
			}
			nonInc := false
			for i := 1; i < len(tss); i++ {
				if tss[i] <= tss[i-1] {
					nonInc = true
				}
			}
			if len(gs) >= 2 && nonInc {
				nt = true
			}
		}
		canon := hist
		canon = strings.ReplaceAll(canon, prefix, "")
		rec.Case(fmt.Sprintf("g=%d %s", ngor, canon), nt, fmt.Sprintf("goroutines=%d", ngor), fmt.Sprintf("rejected>0=%v", nAcc < len(ops)), fmt.Sprintf("nameshape=%d", shape), fmt.Sprintf("crowd=%d", crowd))
	})
}

func pid() int { return int(time.Now().UnixNano() % 1000000) }

func describe(ops []*opT) string {
	s := append([]*opT(nil), ops...)
	sort.Slice(s, func(i, j int) bool { return s[i].call < s[j].call })
	var sb strings.Builder
	for _, o := range s {
		a := "rej"
		if o.accepted {
			a = "ACC"
		}
		fmt.Fprintf(&sb, "[g%d %s ts=%d %s] ", o.client, o.name, o.ts, a)
	}
	return sb.String()
}
