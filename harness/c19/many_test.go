package c19

import (
	"fmt"
	"testing"

	"github.com/grafana/carbon-relay-ng/matcher"
	"pgregory.net/rapid"

	"verifharness/internal/ev"
	"verifharness/internal/h"
)

// TestPropManyNames: per-name state at scale.  Tens to hundreds of thousands of distinct names (hex ids, numbered hosts or
// short words in a drawn template), each sent once with a timestamp OLDER than that of every name before it: each of
// these first points must be accepted, whatever other names have been seen (anything that makes two names share state --
// a short hash, a bounded or evicting table, a key that drops part of the name -- rejects some of them).  Then, for a
// sample of the names from the beginning, the middle and the end: the same timestamp again is rejected, an older one is
// rejected, a newer one is accepted.  Oracle: a map name -> newest accepted timestamp.
func TestPropManyNames(t *testing.T) {
	rec := ev.Get("many_names")
	rapid.Check(t, func(t *rapid.T) {
		caseNo++
		tab := h.NewTable(true)
		n := rapid.SampledFrom([]int{20000, 100000, 300000}).Draw(t, "names")
		tmpl := rapid.SampledFrom([]string{"c19m.%d.containers.%08x.cpu.usage", "c19m.%d.srv%d.load", "c19m.%d.%x", "%[2]x.c19m.%[1]d.suffix.shared.by.all"}).Draw(t, "template")
		mult := uint32(rapid.SampledFrom([]int{1, 2654435761, 40503}).Draw(t, "idspread")) // consecutive or scattered ids
		uniq := pid()*1000 + caseNo
		name := func(i int) string { return fmt.Sprintf(tmpl, uniq, uint32(i+1)*mult) }
		forwarded := 0
		cap := h.NewCaptureRoute("cap", matcher.Matcher{})
		cap.OnDisp = func([]byte) { forwarded++ }
		tab.AddRoute(cap)
		before := h.ReadTableCounters()
		base := uint32(2000000000)
		// how far apart the names' timestamps are: the oldest name is up to a year behind the newest (whatever ages
		// per-name state out by comparing with other names' timestamps forgets a name that is merely old)
		step := uint32(rapid.SampledFrom([]int{1, 3, 100}).Draw(t, "tsStep"))
		for i := 0; i < n; i++ {
			f0 := forwarded
			tab.Dispatch([]byte(fmt.Sprintf("%s 1 %d", name(i), base-uint32(i)*step)))
			if forwarded != f0+1 {
				t.Fatalf("the first point ever sent for name %q (timestamp %d) was rejected after %d other names, each with a newer timestamp", name(i), base-uint32(i)*step, i)
			}
			if i%4096 == 0 {
				cap.Reset()
			}
		}
		cap.Reset()
		probes := 0
		for _, i := range []int{0, 1, n / 3, n / 2, n - 2, n - 1} {
			ts := base - uint32(i)*step
			for _, c := range []struct {
				ts  uint32
				acc bool
			}{{ts, false}, {ts - 1, false}, {ts + 1, true}, {ts + 1, false}, {ts, false}} {
				f0 := forwarded
				tab.Dispatch([]byte(fmt.Sprintf("%s 2 %d", name(i), c.ts)))
				if (forwarded == f0+1) != c.acc {
					t.Fatalf("name %q (one of %d): newest accepted timestamp so far decides, but timestamp %d was accepted=%v, want %v", name(i), n, c.ts, forwarded == f0+1, c.acc)
				}
				probes++
			}
		}
		d := h.ReadTableCounters().Sub(before)
		if int(d.In) != n+probes || int(d.OutOfOrder) != probes-6 || d.Invalid != 0 {
			t.Fatalf("counters: in=%d out_of_order=%d invalid=%d for %d first points and %d probes of which 6 acceptable", d.In, d.OutOfOrder, d.Invalid, n, probes)
		}
		rec.Case(fmt.Sprintf("%d names like %q", n, name(0)), n >= 100000, fmt.Sprintf("names=%d", n))
		rec.Num("names_dispatched", int64(n))
	})
}
