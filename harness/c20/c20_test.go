// C20 — configuration means what the documentation says, in both syntaxes.
package c20

import (
	"bufio"
	"encoding/hex"
	"fmt"
	"io"
	"os"
	"os/exec"
	"path/filepath"
	"reflect"
	"strings"
	"sync"
	"testing"
	"time"

	"github.com/BurntSushi/toml"
	"github.com/grafana/carbon-relay-ng/aggregator"
	"github.com/grafana/carbon-relay-ng/cfg"
	dest "github.com/grafana/carbon-relay-ng/destination"
	"github.com/grafana/carbon-relay-ng/imperatives"
	"github.com/grafana/carbon-relay-ng/matcher"
	"github.com/grafana/carbon-relay-ng/rewriter"
	"github.com/grafana/carbon-relay-ng/route"
	"pgregory.net/rapid"

	"verifharness/internal/ev"
	"verifharness/internal/gen"
	"verifharness/internal/h"
)

var scratch string

func TestMain(m *testing.M) {
	h.Init()
	scratch = os.Getenv("VERIF_SCRATCH")
	if scratch == "" {
		scratch, _ = os.MkdirTemp("", "c20")
	}
	os.WriteFile(filepath.Join(scratch, "schemas.conf"), []byte("[default]\npattern = .*\nretentions = 10s:1d\n"), 0644)
	os.WriteFile(filepath.Join(scratch, "aggregation.conf"), []byte("[default]\npattern = .*\nxFilesFactor = 0.5\naggregationMethod = average\n"), 0644)
	code := m.Run()
	stopDriver()
	ev.Flush()
	os.Exit(code)
}

// ---- recording table -----------------------------------------------------------------------------

type recTable struct {
	aggs   []*aggregator.Aggregator
	rws    []rewriter.RW
	black  []*matcher.Matcher
	routes []route.Route
	dir    string
}

func (t *recTable) AddAggregator(a *aggregator.Aggregator) { t.aggs = append(t.aggs, a) }
func (t *recTable) AddRewriter(rw rewriter.RW)             { t.rws = append(t.rws, rw) }
func (t *recTable) AddBlacklist(m *matcher.Matcher)        { t.black = append(t.black, m) }
func (t *recTable) AddRoute(r route.Route)                 { t.routes = append(t.routes, r) }
func (t *recTable) DelRoute(key string) error              { return nil }
func (t *recTable) UpdateDestination(key string, index int, opts map[string]string) error {
	return nil
}
func (t *recTable) UpdateRoute(key string, opts map[string]string) error { return nil }
func (t *recTable) GetIn() chan []byte                                   { return make(chan []byte, 10) }
func (t *recTable) GetSpoolDir() string                                  { return t.dir }

func (t *recTable) close() {
	for _, a := range t.aggs {
		a.Shutdown()
	}
	for _, r := range t.routes {
		r.Shutdown()
	}
}

var tblSeq int

func newRec() *recTable {
	tblSeq++
	d := filepath.Join(scratch, fmt.Sprintf("spool%d", tblSeq%8))
	os.MkdirAll(d, 0755)
	return &recTable{dir: d}
}

func applyTOML(t *rapid.T, text string) (*recTable, error) {
	c := cfg.NewConfig()
	meta, err := toml.Decode(text, &c)
	if err != nil {
		t.Fatalf("HARNESS-ERROR: generated TOML does not parse: %v\n%s", err, text)
	}
	rt := newRec()
	return rt, cfg.InitTable(rt, c, meta)
}

func applyCmd(cmd string) (*recTable, error) {
	rt := newRec()
	return rt, imperatives.Apply(rt, cmd)
}

// ---- values ----------------------------------------------------------------------------------------

var words = []string{"foo", "bar.baz", "srv", "collectd.host", "a.b.c", "web-1", "x_y", "stats.timers", "prod.", "dc=eu"}

func word(t *rapid.T, label string) string { return rapid.SampledFrom(words).Draw(t, label) }

var regexes = []string{`^foo\.`, `(Err/s|wait_time|logger)`, `^stats\.(app|proxy)[0-9]+\.(.*)`, `bar$`, `[a-z]+\.cpu`}

func keyCase(t *rapid.T, k string) string {
	switch rapid.IntRange(0, 3).Draw(t, "case:"+k) {
	case 0:
		return strings.ToLower(k)
	case 1:
		return strings.ToUpper(k[:1]) + k[1:]
	}
	return k
}

// filter with each option omitted or set; values distinct per option
func genFilterOpts(t *rapid.T, label string) gen.Filter {
	var f gen.Filter
	opt := func(l string, v func() string) string {
		if rapid.Bool().Draw(t, label+"."+l+"?") {
			return v()
		}
		return ""
	}
	f.Prefix = opt("prefix", func() string { return "p." + word(t, label+".prefix") })
	f.NotPrefix = opt("notPrefix", func() string { return "np." + word(t, label+".notPrefix") })
	f.Sub = opt("sub", func() string { return "s." + word(t, label+".sub") })
	f.NotSub = opt("notSub", func() string { return "ns." + word(t, label+".notSub") })
	f.Regex = opt("regex", func() string { return rapid.SampledFrom(regexes).Draw(t, label+".regex") })
	f.NotRegex = opt("notRegex", func() string { return "n" + rapid.SampledFrom(regexes[1:]).Draw(t, label+".notRegex") })
	return f
}

func filterOf(m matcher.Matcher) gen.Filter {
	return gen.Filter{Prefix: m.Prefix, NotPrefix: m.NotPrefix, Sub: m.Sub, NotSub: m.NotSub, Regex: m.Regex, NotRegex: m.NotRegex}
}

func tomlFilter(t *rapid.T, f gen.Filter, sb *strings.Builder) {
	w := func(k, v string) {
		if v != "" {
			fmt.Fprintf(sb, "%s = '%s'\n", keyCase(t, k), v)
		}
	}
	w("prefix", f.Prefix)
	w("notPrefix", f.NotPrefix)
	if f.Sub != "" {
		switch rapid.IntRange(0, 2).Draw(t, "subspelling") {
		case 0:
			w("substr", f.Sub)
		case 1: // both present: sub wins
			w("substr", "ignored.value")
			w("sub", f.Sub)
		default:
			w("sub", f.Sub)
		}
	}
	w("notSub", f.NotSub)
	w("regex", f.Regex)
	w("notRegex", f.NotRegex)
}

func cmdFilter(f gen.Filter) string {
	var parts []string
	w := func(k, v string) {
		if v != "" {
			parts = append(parts, k+"="+v)
		}
	}
	w("prefix", f.Prefix)
	w("notPrefix", f.NotPrefix)
	w("sub", f.Sub)
	w("notSub", f.NotSub)
	w("regex", f.Regex)
	w("notRegex", f.NotRegex)
	return strings.Join(parts, " ")
}

// ---- blacklist ----------------------------------------------------------------------------------------

func TestPropBlacklistAndRewriter(t *testing.T) {
	rec := ev.Get("blacklist_rewriter")
	rapid.Check(t, func(t *rapid.T) {
		if rapid.Bool().Draw(t, "kind") {
			method := rapid.SampledFrom([]string{"prefix", "notPrefix", "sub", "notSub", "regex", "notRegex"}).Draw(t, "method")
			val := word(t, "val")
			if strings.HasSuffix(strings.ToLower(method), "regex") {
				val = rapid.SampledFrom(regexes).Draw(t, "re")
			}
			var want gen.Filter
			switch method {
			case "prefix":
				want.Prefix = val
			case "notPrefix":
				want.NotPrefix = val
			case "sub":
				want.Sub = val
			case "notSub":
				want.NotSub = val
			case "regex":
				want.Regex = val
			case "notRegex":
				want.NotRegex = val
			}
			a, err := applyTOML(t, fmt.Sprintf("blacklist = [\n  '%s %s'\n]\n", method, val))
			if err != nil {
				t.Fatalf("TOML blacklist entry '%s %s' refused: %v", method, val, err)
			}
			b, err := applyCmd(fmt.Sprintf("addBlack %s %s", method, val))
			if err != nil {
				t.Fatalf("command addBlack %s %s refused: %v", method, val, err)
			}
			for i, r := range []*recTable{a, b} {
				if len(r.black) != 1 || filterOf(*r.black[0]) != want {
					t.Fatalf("blacklist '%s %s' via %s gives %v, want %s", method, val, []string{"TOML", "command"}[i], r.black, want)
				}
			}
			rec.Case("blacklist "+method+" "+val, true, "kind=blacklist")
			return
		}
		old := word(t, "old")
		nw := rapid.SampledFrom([]string{"X", "new.name", "servers.${1}.collectd", "$1_x", "${2}.${1}"}).Draw(t, "new")
		max := rapid.SampledFrom([]int{-1, 1, 2, 7}).Draw(t, "max")
		if rapid.Bool().Draw(t, "regex") {
			old, max = "/"+rapid.SampledFrom(regexes).Draw(t, "oldre")+"/", -1
		}
		not := ""
		if rapid.Bool().Draw(t, "not") {
			not = rapid.SampledFrom([]string{"collectd", "/^keep/"}).Draw(t, "notv")
		}
		var sb strings.Builder
		sb.WriteString("[[rewriter]]\n")
		fmt.Fprintf(&sb, "%s = '%s'\n%s = '%s'\n", keyCase(t, "old"), old, keyCase(t, "new"), nw)
		if not != "" || rapid.Bool().Draw(t, "writeEmptyNot") {
			fmt.Fprintf(&sb, "not = '%s'\n", not)
		}
		fmt.Fprintf(&sb, "max = %d\n", max)
		a, err := applyTOML(t, sb.String())
		if err != nil {
			t.Fatalf("TOML rewriter refused: %v\n%s", err, sb.String())
		}
		if len(a.rws) != 1 || a.rws[0].Old != old || a.rws[0].New != nw || a.rws[0].Not != not || a.rws[0].Max != max {
			t.Fatalf("TOML rewriter\n%s gives %+v", sb.String(), a.rws)
		}
		cmd := fmt.Sprintf("addRewriter %s %s %d", old, nw, max)
		b, err := applyCmd(cmd)
		if err != nil {
			t.Fatalf("command %q refused: %v", cmd, err)
		}
		if len(b.rws) != 1 || b.rws[0].Old != old || b.rws[0].New != nw || b.rws[0].Max != max || b.rws[0].Not != "" {
			t.Fatalf("command %q gives %+v", cmd, b.rws)
		}
		rec.Case(cmd+" not="+not, true, "kind=rewriter")
	})
}

// ---- aggregation ------------------------------------------------------------------------------------------

func TestPropAggregation(t *testing.T) {
	rec := ev.Get("aggregation")
	rapid.Check(t, func(t *rapid.T) {
		fun := rapid.SampledFrom([]string{"avg", "count", "delta", "derive", "last", "max", "min", "stdev", "sum", "percentiles"}).Draw(t, "fun")
		f := genFilterOpts(t, "f")
		if f.Regex == "" {
			f.Regex = rapid.SampledFrom(regexes).Draw(t, "mandatoryRegex")
		}
		format := rapid.SampledFrom([]string{"agg.$1.sum", "stats._sum_$1.requests.$2", "out", "a.${1}_x"}).Draw(t, "format")
		interval := rapid.SampledFrom([]int{1, 5, 10, 60}).Draw(t, "interval")
		wait := rapid.SampledFrom([]int{2, 20, 120, 7}).Draw(t, "wait")
		cache := rapid.SampledFrom([]string{"", "true", "false"}).Draw(t, "cache")
		dropRaw := rapid.SampledFrom([]string{"", "true", "false"}).Draw(t, "dropRaw")
		var sb strings.Builder
		sb.WriteString("[[aggregation]]\n")
		fmt.Fprintf(&sb, "%s = '%s'\n", keyCase(t, "function"), fun)
		tomlFilter(t, f, &sb)
		fmt.Fprintf(&sb, "%s = '%s'\n%s = %d\n%s = %d\n", keyCase(t, "format"), format, keyCase(t, "interval"), interval, keyCase(t, "wait"), wait)
		if cache != "" {
			fmt.Fprintf(&sb, "cache = %s\n", cache)
		}
		if dropRaw != "" {
			fmt.Fprintf(&sb, "%s = %s\n", keyCase(t, "dropRaw"), dropRaw)
		}
		check := func(how string, r *recTable) {
			if len(r.aggs) != 1 {
				t.Fatalf("%s produced %d aggregations", how, len(r.aggs))
			}
			a := r.aggs[0]
			if a.Fun != fun || filterOf(a.Matcher) != f || a.OutFmt != format || a.Interval != uint(interval) || a.Wait != uint(wait) {
				t.Fatalf("%s gives fun=%s filter=%s fmt=%q interval=%d wait=%d; want fun=%s filter=%s fmt=%q interval=%d wait=%d", how, a.Fun, filterOf(a.Matcher), a.OutFmt, a.Interval, a.Wait, fun, f, format, interval, wait)
			}
			if cache != "" && a.Cache != (cache == "true") {
				t.Fatalf("%s: cache=%s but the aggregation has cache=%v", how, cache, a.Cache)
			}
			if a.DropRaw != (dropRaw == "true") {
				t.Fatalf("%s: dropRaw=%q but the aggregation has dropRaw=%v (default false)", how, dropRaw, a.DropRaw)
			}
		}
		a, err := applyTOML(t, sb.String())
		if err != nil {
			t.Fatalf("TOML aggregation refused: %v\n%s", err, sb.String())
		}
		defer a.close()
		check("TOML\n"+sb.String(), a)
		if fun != "percentiles" { // only available in the structured syntax
			cmd := fmt.Sprintf("addAgg %s %s %s %d %d", fun, cmdFilter(f), format, interval, wait)
			if rapid.IntRange(0, 3).Draw(t, "paddednumbers") == 0 {
				cmd = fmt.Sprintf("addAgg %s %s %s 0%d 00%d", fun, cmdFilter(f), format, interval, wait) // zero-padded decimals
			}
			if cache != "" {
				cmd += " cache=" + cache
			}
			if dropRaw != "" {
				cmd += " dropRaw=" + dropRaw
			}
			b, err := applyCmd(cmd)
			if err != nil {
				t.Fatalf("command %q refused: %v", cmd, err)
			}
			defer b.close()
			check("command "+cmd, b)
		}
		rec.Case(sb.String(), f.NumSet() >= 3 && f.NumSet() < 6, "fun="+fun, fmt.Sprintf("nset=%d", f.NumSet()))
	})
}

// ---- carbon routes ---------------------------------------------------------------------------------------------

type destModel struct {
	addr   string
	filter gen.Filter
	opts   map[string]int  // numeric options that are set
	padded map[string]bool // written with a leading zero
	spool  string          // "", "true", "false"
	pickle string
	order  []int // permutation of the option positions
}

// options for which the relay accepts 0 (destination.New refuses flush, reconn, iobuf and -- with spool -- spoolsyncperiod of 0)
var zeroOK = map[string]bool{"connbuf": true, "spoolbuf": true, "spoolmaxbytesperfile": true, "spoolsyncevery": true, "spoolsleep": true, "unspoolsleep": true}

var numOpts = []string{"flush", "reconn", "connbuf", "iobuf", "spoolbuf", "spoolmaxbytesperfile", "spoolsyncevery", "spoolsyncperiod", "spoolsleep", "unspoolsleep"}
var numDefaults = map[string]int{"flush": 1000, "reconn": 10000, "connbuf": 30000, "iobuf": 2000000, "spoolbuf": 10000, "spoolmaxbytesperfile": 200 * 1024 * 1024,
	"spoolsyncevery": 10000, "spoolsyncperiod": 1000, "spoolsleep": 500, "unspoolsleep": 10}

// render writes the option string; the options appear in the order drawn for this destination
// (the documentation gives no order, so any order must mean the same)
func (d destModel) render() string {
	var parts []string
	if c := cmdFilter(d.filter); c != "" {
		parts = append(parts, strings.Fields(c)...)
	}
	for _, k := range numOpts {
		if v, ok := d.opts[k]; ok {
			if d.padded[k] && v > 0 {
				parts = append(parts, fmt.Sprintf("%s=0%d", k, v)) // decimal whatever the padding
			} else {
				parts = append(parts, fmt.Sprintf("%s=%d", k, v))
			}
		}
	}
	if d.spool != "" {
		parts = append(parts, "spool="+d.spool)
	}
	if d.pickle != "" {
		parts = append(parts, "pickle="+d.pickle)
	}
	s := d.addr
	for _, i := range d.order {
		if i < len(parts) {
			s += " " + parts[i]
		}
	}
	for i := range parts { // (options beyond the drawn permutation, if any)
		if i >= len(d.order) {
			s += " " + parts[i]
		}
	}
	return s
}

func (d destModel) val(k string) int {
	if v, ok := d.opts[k]; ok {
		return v
	}
	return numDefaults[k]
}

func checkDest(t *rapid.T, how string, j int, got *dest.Destination, d destModel, spoolDir string) {
	host := d.addr
	inst := ""
	if strings.Count(d.addr, ":") == 2 {
		i := strings.LastIndex(d.addr, ":")
		host, inst = d.addr[:i], d.addr[i+1:]
	}
	pf, pr, cb, ib := got.VerifSettings()
	type tup struct {
		Addr, Inst                            string
		F                                     gen.Filter
		Spool, Pickle                         bool
		Flush, Reconn, SyncPeriod, SSleep, US time.Duration
		ConnBuf, IoBuf, SpoolBuf              int
		MaxBytes, SyncEvery                   int64
		SpoolDir                              string
	}
	g := tup{got.Addr, got.Instance, filterOf(got.GetMatcher()), got.Spool, got.Pickle, pf, pr, got.SpoolSyncPeriod, got.SpoolSleep, got.UnspoolSleep, cb, ib, got.SpoolBufSize, got.SpoolMaxBytesPerFile, got.SpoolSyncEvery, got.SpoolDir}
	w := tup{host, inst, d.filter, d.spool == "true", d.pickle == "true",
		time.Duration(d.val("flush")) * time.Millisecond, time.Duration(d.val("reconn")) * time.Millisecond, time.Duration(d.val("spoolsyncperiod")) * time.Millisecond,
		time.Duration(d.val("spoolsleep")) * time.Microsecond, time.Duration(d.val("unspoolsleep")) * time.Microsecond,
		d.val("connbuf"), d.val("iobuf"), d.val("spoolbuf"), int64(d.val("spoolmaxbytesperfile")), int64(d.val("spoolsyncevery")), spoolDir}
	if g != w {
		t.Fatalf("%s: destination %d (%q) is\n  %+v\nthe documentation says\n  %+v", how, j, d.render(), g, w)
	}
}

// A section is one [[route]] table of a config file together with the equivalent addRoute command and the
// settings the documentation promises for it.
type section struct {
	toml, cmd  string
	check      func(t *rapid.T, how string, r route.Route, dir string)
	nontrivial bool
	classes    []string
	sets       map[string]bool // grafanaNet: which of sslverify/spool/blocking the section sets itself
}

func genCarbonSection(t *rapid.T, suffix string) section {
	typ := rapid.SampledFrom([]string{"sendAllMatch", "sendFirstMatch", "consistentHashing"}).Draw(t, "type")
	key := "rk" + rapid.StringMatching(`[a-z]{1,5}`).Draw(t, "key") + suffix
	rf := genFilterOpts(t, "route")
	nd := rapid.IntRange(1, 3).Draw(t, "ndest")
	if typ == "consistentHashing" && nd < 2 {
		nd = 2
	}
	var ds []destModel
	nset, nomit, nzero := 0, 0, 0
	for j := 0; j < nd; j++ {
		d := destModel{addr: fmt.Sprintf("127.0.0.1:%d", 1+j), opts: map[string]int{}, padded: map[string]bool{}}
		if typ == "consistentHashing" {
			if rapid.Bool().Draw(t, "inst") {
				d.addr += fmt.Sprintf(":i%d", j)
			}
		} else {
			d.filter = genFilterOpts(t, fmt.Sprintf("d%d", j))
		}
		for oi, k := range numOpts {
			if rapid.Bool().Draw(t, fmt.Sprintf("d%d.%s?", j, k)) {
				d.opts[k] = 1000 + 101*(oi+1) + 20000*(j+1) // distinct from every default, option and destination
				// boundary values an operator may write: 1 everywhere, and 0 where the relay accepts it (an unbuffered
				// connection / spool inbox, no pause between spool reads or writes, sync or roll over on every message)
				switch rapid.IntRange(0, 5).Draw(t, fmt.Sprintf("d%d.%s.boundary", j, k)) {
				case 0:
					d.opts[k] = 1
				case 1:
					if zeroOK[k] {
						d.opts[k] = 0
						nzero++
					}
				}
				d.padded[k] = rapid.IntRange(0, 4).Draw(t, fmt.Sprintf("d%d.%s.padded", j, k)) == 0
				nset++
			} else {
				nomit++
			}
		}
		d.spool = rapid.SampledFrom([]string{"", "true", "false"}).Draw(t, "spool")
		d.pickle = rapid.SampledFrom([]string{"", "true", "false"}).Draw(t, "pickle")
		idx := make([]int, 18)
		for i := range idx {
			idx[i] = i
		}
		d.order = rapid.Permutation(idx).Draw(t, fmt.Sprintf("d%d.order", j))
		ds = append(ds, d)
	}
	var sb strings.Builder
	sb.WriteString("[[route]]\n")
	fmt.Fprintf(&sb, "key = '%s'\ntype = '%s'\n", key, typ)
	tomlFilter(t, rf, &sb)
	sb.WriteString("destinations = [\n")
	for _, d := range ds {
		// inside a TOML array element blanks are just blanks (options aligned in columns, a trailing blank): only the command
		// syntax gives the double blank a meaning
		td := d.render()
		if rapid.IntRange(0, 2).Draw(t, "tomlspacing") == 0 {
			toks := strings.Split(td, " ")
			td = toks[0]
			for _, tk := range toks[1:] {
				td += rapid.SampledFrom([]string{" ", "  ", "   ", "    "}).Draw(t, "gap") + tk
			}
			td += rapid.SampledFrom([]string{"", " ", "  "}).Draw(t, "trailgap")
		}
		fmt.Fprintf(&sb, "  '%s',\n", td)
	}
	sb.WriteString("]\n")
	cmd := "addRoute " + typ + " " + key
	if c := cmdFilter(rf); c != "" {
		cmd += " " + c
	}
	for _, d := range ds {
		cmd += "  " + d.render()
	}
	check := func(t *rapid.T, how string, r route.Route, dir string) {
		s := r.Snapshot()
		if s.Key != key || s.Type != typ || filterOf(s.Matcher) != rf {
			t.Fatalf("%s gives key=%s type=%s filter=%s; want key=%s type=%s filter=%s", how, s.Key, s.Type, filterOf(s.Matcher), key, typ, rf)
		}
		if len(s.Dests) != len(ds) {
			t.Fatalf("%s gives %d destinations, want %d", how, len(s.Dests), len(ds))
		}
		for j := range ds {
			d, err := r.GetDestination(j)
			if err != nil {
				t.Fatalf("%s: GetDestination(%d): %v", how, j, err)
			}
			checkDest(t, how, j, d, ds[j], dir)
		}
	}
	return section{toml: sb.String(), cmd: cmd, check: check, nontrivial: nset >= 3 && nomit >= 1, classes: []string{"type=" + typ, fmt.Sprintf("ndest=%d", nd), fmt.Sprintf("explicit-zero-option=%v", nzero > 0)}}
}

func TestPropCarbonRoute(t *testing.T) {
	rec := ev.Get("carbon_route")
	rapid.Check(t, func(t *rapid.T) {
		sec := genCarbonSection(t, "")
		a, err := applyTOML(t, sec.toml)
		if err != nil {
			t.Fatalf("TOML route refused: %v\n%s", err, sec.toml)
		}
		defer a.close()
		if len(a.routes) != 1 {
			t.Fatalf("TOML\n%s produced %d routes", sec.toml, len(a.routes))
		}
		sec.check(t, "TOML\n"+sec.toml, a.routes[0], a.dir)
		b, err := applyCmd(sec.cmd)
		if err != nil {
			t.Fatalf("command %q refused: %v", sec.cmd, err)
		}
		defer b.close()
		if len(b.routes) != 1 {
			t.Fatalf("command %q produced %d routes", sec.cmd, len(b.routes))
		}
		sec.check(t, "command "+sec.cmd, b.routes[0], b.dir)
		rec.Case(sec.cmd, sec.nontrivial, sec.classes...)
	})
}

// ---- grafanaNet route ---------------------------------------------------------------------------------------------

var gnCases int

// genGNSection: with small, bufSize and concurrency are always set (their defaults allocate 240 MB per route).
func genGNSection(t *rapid.T, suffix string, small bool) section {
	key := "gn" + rapid.StringMatching(`[a-z]{1,4}`).Draw(t, "key") + suffix
	rf := genFilterOpts(t, "route")
	addr := "http://127.0.0.1:1/metrics"
	apiKey := rapid.SampledFrom([]string{"secret", "123:abc"}).Draw(t, "apikey")
	schemas, aggf := filepath.Join(scratch, "schemas.conf"), filepath.Join(scratch, "aggregation.conf")
	type optT struct {
		name string
		val  interface{}
	}
	want := route.GrafanaNetConfig{Addr: addr, ApiKey: apiKey, SchemasFile: schemas, AggregationFile: aggf, BufSize: 1e7, FlushMaxNum: 5000, FlushMaxWait: 500 * time.Millisecond,
		Timeout: 10 * time.Second, Concurrency: 100, OrgID: 1, SSLVerify: true, ErrBackoffMin: 100 * time.Millisecond, ErrBackoffFactor: 1.5}
	var opts []optT
	set := func(name string, v interface{}) { opts = append(opts, optT{name, v}) }
	// bufSize / concurrency are left at their (huge) defaults only in the first case of a process
	if small || rapid.Bool().Draw(t, "bufSize?") {
		want.BufSize = 1200 + rapid.IntRange(0, 50).Draw(t, "bufSize")
		set("bufSize", want.BufSize)
	}
	if small || rapid.Bool().Draw(t, "concurrency?") {
		want.Concurrency = 2 + rapid.IntRange(0, 4).Draw(t, "concurrency")
		set("concurrency", want.Concurrency)
	}
	if rapid.Bool().Draw(t, "flushMaxNum?") {
		want.FlushMaxNum = 4321
		set("flushMaxNum", 4321)
	}
	if rapid.Bool().Draw(t, "flushMaxWait?") {
		want.FlushMaxWait = 765 * time.Millisecond
		set("flushMaxWait", 765)
	}
	if rapid.Bool().Draw(t, "timeout?") {
		want.Timeout = 8765 * time.Millisecond
		set("timeout", 8765)
	}
	if rapid.Bool().Draw(t, "orgId?") {
		want.OrgID = 17
		set("orgId", 17)
	}
	if rapid.Bool().Draw(t, "errBackoffMin?") {
		want.ErrBackoffMin = 234 * time.Millisecond
		set("errBackoffMin", 234)
	}
	if rapid.Bool().Draw(t, "errBackoffFactor?") {
		want.ErrBackoffFactor = 2.5
		set("errBackoffFactor", 2.5)
	}
	for _, b := range []string{"sslverify", "spool", "blocking"} {
		switch rapid.IntRange(0, 2).Draw(t, b+"?") {
		case 1:
			set(b, true)
		case 2:
			set(b, false)
		}
	}
	for _, o := range opts {
		switch o.name {
		case "sslverify":
			want.SSLVerify = o.val.(bool)
		case "spool":
			want.Spool = o.val.(bool)
		case "blocking":
			want.Blocking = o.val.(bool)
		}
	}
	var sb strings.Builder
	sb.WriteString("[[route]]\n")
	fmt.Fprintf(&sb, "key = '%s'\ntype = 'grafanaNet'\naddr = '%s'\n%s = '%s'\n%s = '%s'\n%s = '%s'\n", key, addr, keyCase(t, "apikey"), apiKey, keyCase(t, "schemasFile"), schemas, keyCase(t, "aggregationFile"), aggf)
	tomlFilter(t, rf, &sb)
	cmd := "addRoute grafanaNet " + key
	if c := cmdFilter(rf); c != "" {
		cmd += " " + c
	}
	cmd += "  " + addr + " " + apiKey + " " + schemas + " " + aggf
	for _, o := range opts {
		fmt.Fprintf(&sb, "%s = %v\n", keyCase(t, o.name), o.val)
		cmd += fmt.Sprintf(" %s=%v", o.name, o.val)
	}
	sets := map[string]bool{}
	for _, o := range opts {
		sets[o.name] = true
	}
	check := func(t *rapid.T, how string, r route.Route, dir string) {
		g, ok := r.(*route.GrafanaNet)
		if !ok {
			t.Fatalf("%s produced a %T", how, r)
		}
		if !reflect.DeepEqual(g.Cfg, want) {
			t.Fatalf("%s gives\n  %+v\nthe documentation says\n  %+v", how, g.Cfg, want)
		}
		s := g.Snapshot()
		if s.Key != key || filterOf(s.Matcher) != rf {
			t.Fatalf("%s gives key=%s filter=%s, want key=%s filter=%s", how, s.Key, filterOf(s.Matcher), key, rf)
		}
	}
	return section{toml: sb.String(), cmd: cmd, check: check, nontrivial: len(opts) >= 3 && len(opts) < 11, classes: []string{fmt.Sprintf("nopts=%d", len(opts))}, sets: sets}
}

func TestPropGrafanaNetRoute(t *testing.T) {
	rec := ev.Get("grafananet_route")
	rapid.Check(t, func(t *rapid.T) {
		gnCases++
		sec := genGNSection(t, "", gnCases > 1)
		a, err := applyTOML(t, sec.toml)
		if err != nil {
			t.Fatalf("TOML grafanaNet route refused: %v\n%s", err, sec.toml)
		}
		defer a.close()
		if len(a.routes) != 1 {
			t.Fatalf("TOML\n%s produced %d routes", sec.toml, len(a.routes))
		}
		sec.check(t, "TOML\n"+sec.toml, a.routes[0], a.dir)
		if gnCases > 1 { // (the first case may carry the 240 MB default buffer: build it once, not twice)
			b, err := applyCmd(sec.cmd)
			if err != nil {
				t.Fatalf("command %q refused: %v", sec.cmd, err)
			}
			defer b.close()
			if len(b.routes) != 1 {
				t.Fatalf("command %q produced %d routes", sec.cmd, len(b.routes))
			}
			sec.check(t, "command "+sec.cmd, b.routes[0], b.dir)
		}
		rec.Case(sec.cmd, sec.nontrivial, sec.classes...)
	})
}

// ---- several route sections in one file ---------------------------------------------------------------------------

// TestPropRouteSections: a config file lists several [[route]] tables (any mix of types); every one of them must come
// out exactly as if it had been the only one (i.e. as its addRoute command says), in file order.  What one section sets
// or omits must not leak into another.
func TestPropRouteSections(t *testing.T) {
	rec := ev.Get("route_sections")
	rapid.Check(t, func(t *rapid.T) {
		n := rapid.IntRange(2, 4).Draw(t, "nsections")
		var secs []section
		ngn := 0
		for i := 0; i < n; i++ {
			if rapid.IntRange(0, 2).Draw(t, "kind") > 0 {
				secs = append(secs, genGNSection(t, fmt.Sprint(i), true))
				ngn++
			} else {
				secs = append(secs, genCarbonSection(t, fmt.Sprint(i)))
			}
		}
		var file strings.Builder
		var cmds []string
		for _, s := range secs {
			file.WriteString(s.toml)
			cmds = append(cmds, s.cmd)
		}
		a, err := applyTOML(t, file.String())
		if err != nil {
			t.Fatalf("TOML refused: %v\n%s", err, file.String())
		}
		defer a.close()
		if len(a.routes) != n {
			t.Fatalf("TOML with %d route sections produced %d routes\n%s", n, len(a.routes), file.String())
		}
		for i, s := range secs {
			s.check(t, fmt.Sprintf("route section %d of TOML\n%s", i, file.String()), a.routes[i], a.dir)
		}
		// differing: some grafanaNet section omits a boolean that an earlier section sets
		differing := false
		seen := map[string]bool{}
		for _, s := range secs {
			if s.sets != nil {
				for _, b := range []string{"sslverify", "spool", "blocking"} {
					if seen[b] && !s.sets[b] {
						differing = true
					}
				}
			}
			for b := range s.sets {
				seen[b] = true
			}
		}
		rec.Case(strings.Join(cmds, " ; "), ngn >= 1 && n >= 2 && differing, fmt.Sprintf("sections=%d", n), fmt.Sprintf("grafanaNet=%d", ngn), fmt.Sprintf("omits-what-an-earlier-section-sets=%v", differing))
	})
}

// ---- interpolation ---------------------------------------------------------------------------------------------------

type driverT struct {
	cmd *exec.Cmd
	in  io.WriteCloser
	out *bufio.Reader
}

var (
	drvMu  sync.Mutex
	driver *driverT
)

var envVars = map[string]string{"GRAFANA_NET_ADDR": "https://gn.example/metrics", "GRAFANA_NET_API_KEY": "k3y", "GRAFANA_NET_USER_ID": "4242"}

func startDriver() (*driverT, error) {
	drvMu.Lock()
	defer drvMu.Unlock()
	if driver != nil {
		return driver, nil
	}
	bin := filepath.Join(scratch, "crng-main.test")
	args := []string{"test", "-c", "-vet=off", "-tags", "verif", "-o", bin}
	if mf := os.Getenv("VERIF_GO_MODFILE"); mf != "" {
		args = append(args, "-modfile="+mf)
	}
	args = append(args, "github.com/grafana/carbon-relay-ng/cmd/carbon-relay-ng")
	c := exec.Command("go", args...)
	c.Dir = filepath.Join(os.Getenv("VERIF_ROOT"), "harness")
	if os.Getenv("VERIF_ROOT") == "" {
		c.Dir = "/verif/harness"
	}
	if out, err := c.CombinedOutput(); err != nil {
		return nil, fmt.Errorf("building the package-main driver: %v\n%s", err, out)
	}
	d := exec.Command(bin, "-test.run", "^TestVerifInterpolationDriver$")
	d.Env = append(os.Environ(), "VERIF_DRIVER=1")
	for k, v := range envVars {
		d.Env = append(d.Env, k+"="+v)
	}
	in, _ := d.StdinPipe()
	out, _ := d.StdoutPipe()
	d.Stderr = os.Stderr
	if err := d.Start(); err != nil {
		return nil, err
	}
	driver = &driverT{d, in, bufio.NewReaderSize(out, 1<<20)}
	return driver, nil
}

func stopDriver() {
	if driver != nil {
		driver.in.Close()
		driver.cmd.Process.Kill()
		driver.cmd.Wait()
	}
}

func (d *driverT) expand(text string) (string, error) {
	if _, err := fmt.Fprintf(d.in, "%s\n", hex.EncodeToString([]byte(text))); err != nil {
		return "", err
	}
	for {
		line, err := d.out.ReadString('\n')
		if err != nil {
			return "", fmt.Errorf("driver died: %v", err)
		}
		line = strings.TrimSpace(line)
		if strings.HasPrefix(line, "OUT ") {
			b, err := hex.DecodeString(line[4:])
			return string(b), err
		}
		if strings.HasPrefix(line, "ERR ") {
			return "", fmt.Errorf("driver: %s", line)
		}
	}
}

func hostShort() string {
	hn, _ := os.Hostname()
	return strings.SplitN(hn, ".", 2)[0]
}

// piece of configuration text and the expansions the documentation allows for it
type piece struct {
	in   string
	outs []string
}

func TestPropInterpolation(t *testing.T) {
	rec := ev.Get("interpolation")
	rapid.Check(t, func(t *rapid.T) {
		d, err := startDriver()
		if err != nil {
			t.Fatalf("HARNESS-ERROR: %v", err)
		}
		host := hostShort()
		lits := []string{"instance = \"", "\"\n", "new = 'servers.", ".collectd'\n", "format = 'agg.", "_x.sum'\n", " ", "{", "}", "regex = '^a(b)$'\n", "é", "apikey = \"", ":", "# comment\n", "\\"}
		others := []string{"$1", "${1}", "$10", "${10}", "${name}", "$name", "$$", "$", "$.", "$-", "${}", "${", "${1", "$}", "$HOSTNAME", "${HOSTX}", "$GRAFANA_NET", "${GRAFANA_NET_ADDRESS}", "$host", "${host}", "$_", "$1_x", "${1}_x", "$*", "$#", "$?", "$@", "$!", "$0", "$é"}
		n := rapid.IntRange(1, 8).Draw(t, "npieces")
		var ps []piece
		hasVar, hasOther := false, false
		for i := 0; i < n; i++ {
			switch rapid.IntRange(0, 3).Draw(t, "piece") {
			case 0:
				l := rapid.SampledFrom(lits).Draw(t, "lit")
				ps = append(ps, piece{l, []string{l}})
			case 1:
				v := rapid.SampledFrom([]string{"HOST", "GRAFANA_NET_ADDR", "GRAFANA_NET_API_KEY", "GRAFANA_NET_USER_ID"}).Draw(t, "var")
				val := host
				if v != "HOST" {
					val = envVars[v]
				}
				if rapid.Bool().Draw(t, "braces") {
					ps = append(ps, piece{"${" + v + "}", []string{val}}) // the documented form
				} else {
					// $VAR without braces is not documented: substituted or left alone; it must be followed by a delimiter to be a variable at all
					ps = append(ps, piece{"$" + v, []string{val, "$" + v}}, piece{"\"", []string{"\""}})
				}
				hasVar = true
			default:
				o := rapid.SampledFrom(others).Draw(t, "other")
				// keep a following identifier character from gluing to it
				ps = append(ps, piece{o, []string{o}}, piece{" ", []string{" "}})
				hasOther = true
			}
		}
		var in strings.Builder
		for _, p := range ps {
			in.WriteString(p.in)
		}
		got, err := d.expand(in.String())
		if err != nil {
			t.Fatalf("HARNESS-ERROR: %v", err)
		}
		// match got against the allowed expansions piece by piece
		rest := got
		ok := true
		for _, p := range ps {
			m := false
			for _, o := range p.outs {
				if strings.HasPrefix(rest, o) {
					rest = rest[len(o):]
					m = true
					break
				}
			}
			if !m {
				ok = false
				break
			}
		}
		if !ok || rest != "" {
			var want strings.Builder
			for _, p := range ps {
				want.WriteString(p.outs[0])
			}
			t.Fatalf("configuration text %q is interpolated to %q; only the documented variables may be substituted: want %q", in.String(), got, want.String())
		}
		rec.Case(in.String(), hasVar && hasOther, fmt.Sprintf("has-var=%v", hasVar), fmt.Sprintf("has-other-dollar=%v", hasOther))
	})
}
