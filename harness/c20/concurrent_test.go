// C20 — commands arriving on several admin connections at once: every command still produces the entry it describes
// (the admin port serves each connection in its own goroutine).
package c20

import (
	"fmt"
	"strings"
	"sync"
	"testing"

	"github.com/grafana/carbon-relay-ng/imperatives"
	"github.com/grafana/carbon-relay-ng/route"
	"pgregory.net/rapid"

	"verifharness/internal/ev"
)

// lockedRec: the recording table made safe for concurrent callers (the real table locks too).
type lockedRec struct {
	*recTable
	mu sync.Mutex
}

func (l *lockedRec) AddRoute(r route.Route) {
	l.mu.Lock()
	defer l.mu.Unlock()
	l.recTable.AddRoute(r)
}

func TestPropConcurrentCommands(t *testing.T) {
	rec := ev.Get("concurrent_commands")
	rapid.Check(t, func(t *rapid.T) {
		n := rapid.IntRange(2, 10).Draw(t, "ncommands")
		var secs []section
		for i := 0; i < n; i++ {
			secs = append(secs, genCarbonSection(t, fmt.Sprint(i)))
		}
		tab := &lockedRec{recTable: newRec()}
		defer tab.close()
		errs := make([]error, n)
		start := make(chan struct{})
		var wg sync.WaitGroup
		for i := range secs {
			wg.Add(1)
			go func(i int) {
				defer wg.Done()
				defer func() {
					if r := recover(); r != nil {
						errs[i] = fmt.Errorf("panic: %v", r)
					}
				}()
				<-start
				errs[i] = imperatives.Apply(tab, secs[i].cmd)
			}(i)
		}
		close(start)
		wg.Wait()
		var all []string
		for _, s := range secs {
			all = append(all, s.cmd)
		}
		ctx := fmt.Sprintf("%d commands sent at the same time on %d admin connections:\n  %s", n, n, strings.Join(all, "\n  "))
		for i, err := range errs {
			if err != nil {
				t.Fatalf("command %q was refused: %v\n%s", secs[i].cmd, err, ctx)
			}
		}
		if len(tab.routes) != n {
			t.Fatalf("%d routes exist after %d accepted addRoute commands\n%s", len(tab.routes), n, ctx)
		}
		byKey := map[string]route.Route{}
		for _, r := range tab.routes {
			byKey[r.Key()] = r
		}
		for _, s := range secs {
			key := strings.Fields(s.cmd)[2]
			r, ok := byKey[key]
			if !ok {
				t.Fatalf("command %q was accepted but there is no route %q\n%s", s.cmd, key, ctx)
			}
			s.check(t, "command "+s.cmd+" (sent together with the others)\n"+ctx, r, tab.dir)
		}
		rec.Case(strings.Join(all, " ; "), n >= 2, fmt.Sprintf("commands=%d", n))
	})
}
