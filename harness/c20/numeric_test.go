// C20 — match options whose value consists of digits only (prefix=404, sub=500, regex=2019): the command tokenizer reads
// such a value as a number.  Whatever it does with it, "no option is silently ignored, swapped" or altered: the command is
// either refused with an error or the entry holds exactly the value that was written.
package c20

import (
	"fmt"
	"testing"

	"github.com/grafana/carbon-relay-ng/imperatives"
	"github.com/grafana/carbon-relay-ng/matcher"
	"pgregory.net/rapid"

	"verifharness/internal/ev"
)

func field(m matcher.Matcher, opt string) string {
	switch opt {
	case "prefix":
		return m.Prefix
	case "notPrefix":
		return m.NotPrefix
	case "sub":
		return m.Sub
	case "notSub":
		return m.NotSub
	case "regex":
		return m.Regex
	}
	return m.NotRegex
}

func TestPropNumericMatchValues(t *testing.T) {
	rec := ev.Get("numeric_match_values")
	rapid.Check(t, func(t *rapid.T) {
		opt := rapid.SampledFrom([]string{"prefix", "notPrefix", "sub", "notSub", "regex", "notRegex"}).Draw(t, "opt")
		val := rapid.SampledFrom([]string{"404", "500", "2019", "0", "1", "007", "65536", "12345678901234567890"}).Draw(t, "val")
		kind := rapid.SampledFrom([]string{"addBlack", "route", "dest", "dest-last", "addAgg", "modRoute", "modDest"}).Draw(t, "kind")
		tab := newRec()
		defer tab.close()
		var cmd string
		var read func() (string, bool)
		switch kind {
		case "addBlack":
			cmd = fmt.Sprintf("addBlack %s %s", opt, val)
			read = func() (string, bool) {
				if len(tab.black) != 1 {
					return "", false
				}
				return field(*tab.black[0], opt), true
			}
		case "route":
			cmd = fmt.Sprintf("addRoute sendAllMatch rknum %s=%s  127.0.0.1:1 spool=false", opt, val)
			read = func() (string, bool) {
				if len(tab.routes) != 1 {
					return "", false
				}
				return field(tab.routes[0].Snapshot().Matcher, opt), true
			}
		case "dest", "dest-last":
			cmd = fmt.Sprintf("addRoute sendAllMatch rknum  127.0.0.1:1 %s=%s spool=false", opt, val)
			if kind == "dest-last" {
				cmd = fmt.Sprintf("addRoute sendAllMatch rknum  127.0.0.1:1 spool=false %s=%s", opt, val)
			}
			read = func() (string, bool) {
				if len(tab.routes) != 1 || len(tab.routes[0].Snapshot().Dests) != 1 {
					return "", false
				}
				return field(tab.routes[0].Snapshot().Dests[0].Matcher, opt), true
			}
		case "addAgg":
			if opt == "regex" {
				cmd = fmt.Sprintf("addAgg sum regex=%s numout 10 20", val)
			} else {
				cmd = fmt.Sprintf("addAgg sum regex=^num\\.(.*) %s=%s numout.$1 10 20", opt, val)
			}
			read = func() (string, bool) {
				if len(tab.aggs) != 1 {
					return "", false
				}
				return field(tab.aggs[0].Matcher, opt), true
			}
		default:
			// modRoute / modDest go to the table's update calls with the option map: record what arrives
			rt := &updRec{recTable: tab}
			if kind == "modRoute" {
				cmd = fmt.Sprintf("modRoute rknum %s=%s", opt, val)
			} else {
				cmd = fmt.Sprintf("modDest rknum 0 %s=%s", opt, val)
			}
			err := imperatives.Apply(rt, cmd)
			if err == nil {
				if got, ok := rt.opts[opt]; !ok || got != val {
					t.Fatalf("command %q was accepted, but the %s that reached the table is %q (written: %q)", cmd, opt, got, val)
				}
			}
			rec.Case(cmd, true, "kind="+kind, fmt.Sprintf("accepted=%v", err == nil))
			return
		}
		err := imperatives.Apply(tab, cmd)
		if err == nil {
			got, ok := read()
			if !ok {
				t.Fatalf("command %q was accepted without an error but produced no entry", cmd)
			}
			if got != val {
				t.Fatalf("command %q was accepted, but the entry's %s is %q (written: %q)", cmd, opt, got, val)
			}
		}
		rec.Case(cmd, true, "kind="+kind, fmt.Sprintf("accepted=%v", err == nil))
	})
}

// updRec records the option map of UpdateRoute / UpdateDestination.
type updRec struct {
	*recTable
	opts map[string]string
}

func (u *updRec) UpdateRoute(key string, opts map[string]string) error { u.opts = opts; return nil }
func (u *updRec) UpdateDestination(key string, index int, opts map[string]string) error {
	u.opts = opts
	return nil
}
