// Package aggref is the reference aggregator used by C10 and C11, written from
// the property statement and docs/aggregation.md (not from the code):
//
//   - bucket key = (expanded output name, ts - ts%interval)
//   - a point joins an existing, not yet emitted bucket; otherwise it opens one
//     iff bucketStart > now - wait; otherwise it is too old
//   - a tick at t emits every bucket with start <= t - wait, ascending by start,
//     one line "name value start" (six "name.pNN" lines for percentiles, none
//     for derive over a single timestamp), values with six decimals
package aggref

import (
	"fmt"
	"math"
	"regexp"
	"sort"

	"verifharness/internal/gen"
)

type Rule struct {
	Fun      string
	Filter   gen.Filter
	OutFmt   string
	Interval int64
	Wait     int64
}

type pt struct {
	v  float64
	ts int64
}

type bkey struct {
	name  string
	start int64
}

type Agg struct {
	R       Rule
	ref     *gen.Ref
	re      *regexp.Regexp
	buckets map[bkey][]pt
	TooOld  int64
}

func New(r Rule) *Agg {
	return &Agg{R: r, ref: r.Filter.Ref(), re: regexp.MustCompile(r.Filter.Regex), buckets: map[bkey][]pt{}}
}

// Matches: the complete filter accepts the name.
func (a *Agg) Matches(name string) bool { return a.ref.Match(name) }

func (a *Agg) OutName(name string) string {
	m := a.re.FindStringSubmatchIndex(name)
	if m == nil {
		return ""
	}
	return string(a.re.ExpandString(nil, a.R.OutFmt, name, m))
}

// Point processes one matching-or-not point at clock `now`.  Returns what happened.
func (a *Agg) Point(name string, v float64, ts, now int64) string {
	if !a.Matches(name) {
		return "nomatch"
	}
	k := bkey{a.OutName(name), ts - ts%a.R.Interval}
	if _, ok := a.buckets[k]; ok {
		a.buckets[k] = append(a.buckets[k], pt{v, ts})
		return "joined"
	}
	if k.start > now-a.R.Wait {
		a.buckets[k] = []pt{{v, ts}}
		return "opened"
	}
	a.TooOld++
	return "tooold"
}

type Out struct {
	Name  string
	Start int64
	Val   float64
	Alt   []float64 // other acceptable values (derive ties)
}

func (o Out) String() string { return fmt.Sprintf("%s %f %d", o.Name, o.Val, o.Start) }

// OpenStarts returns the distinct bucket starts currently open.
func (a *Agg) OpenStarts() map[int64]bool {
	m := map[int64]bool{}
	for k := range a.buckets {
		m[k.start] = true
	}
	return m
}

func (a *Agg) HasBucket(name string, ts int64) bool {
	_, ok := a.buckets[bkey{a.OutName(name), ts - ts%a.R.Interval}]
	return ok
}

// Tick emits (and closes) every bucket with start <= t - wait, ascending by start.
func (a *Agg) Tick(t int64) []Out {
	cutoff := t - a.R.Wait
	var keys []bkey
	for k := range a.buckets {
		if k.start <= cutoff {
			keys = append(keys, k)
		}
	}
	sort.Slice(keys, func(i, j int) bool {
		if keys[i].start != keys[j].start {
			return keys[i].start < keys[j].start
		}
		return keys[i].name < keys[j].name
	})
	var outs []Out
	for _, k := range keys {
		outs = append(outs, Compute(a.R.Fun, k.name, k.start, a.buckets[k])...)
		delete(a.buckets, k)
	}
	return outs
}

func Compute(fun, name string, start int64, ps []pt) []Out {
	vals := make([]float64, len(ps))
	for i, p := range ps {
		vals[i] = p.v
	}
	one := func(v float64) []Out { return []Out{{Name: name, Start: start, Val: v}} }
	switch fun {
	case "sum":
		s := 0.0
		for _, v := range vals {
			s += v
		}
		return one(s)
	case "count":
		return one(float64(len(vals)))
	case "avg":
		s := 0.0
		for _, v := range vals {
			s += v
		}
		return one(s / float64(len(vals)))
	case "min":
		m := vals[0]
		for _, v := range vals {
			m = math.Min(m, v)
		}
		return one(m)
	case "max":
		m := vals[0]
		for _, v := range vals {
			m = math.Max(m, v)
		}
		return one(m)
	case "last":
		return one(vals[len(vals)-1])
	case "delta":
		lo, hi := vals[0], vals[0]
		for _, v := range vals {
			lo, hi = math.Min(lo, v), math.Max(hi, v)
		}
		return one(hi - lo)
	case "stdev":
		s := 0.0
		for _, v := range vals {
			s += v
		}
		mean := s / float64(len(vals))
		q := 0.0
		for _, v := range vals {
			q += (v - mean) * (v - mean)
		}
		return one(math.Sqrt(q / float64(len(vals))))
	case "derive":
		lo, hi := ps[0].ts, ps[0].ts
		for _, p := range ps {
			if p.ts < lo {
				lo = p.ts
			}
			if p.ts > hi {
				hi = p.ts
			}
		}
		if lo == hi {
			return nil // needs two distinct timestamps
		}
		var olds, news []float64
		for _, p := range ps {
			if p.ts == lo {
				olds = append(olds, p.v)
			}
			if p.ts == hi {
				news = append(news, p.v)
			}
		}
		o := Out{Name: name, Start: start, Val: (news[0] - olds[0]) / float64(hi-lo)}
		for _, n := range news {
			for _, od := range olds {
				o.Alt = append(o.Alt, (n-od)/float64(hi-lo))
			}
		}
		return []Out{o}
	case "percentiles":
		sorted := append([]float64(nil), vals...)
		sort.Float64s(sorted)
		n := len(sorted)
		var outs []Out
		for _, p := range []int{25, 50, 75, 90, 95, 99} {
			rank := float64(p) / 100 * float64(n+1)
			var v float64
			switch {
			case rank < 1:
				v = sorted[0]
			case rank >= float64(n):
				v = sorted[n-1]
			default:
				k := int(math.Floor(rank))
				v = sorted[k-1] + (rank-float64(k))*(sorted[k]-sorted[k-1])
			}
			outs = append(outs, Out{Name: fmt.Sprintf("%s.p%d", name, p), Start: start, Val: v})
		}
		return outs
	}
	panic("HARNESS-ERROR: unknown function " + fun)
}

// Accepts: does the real output value match this expected output within the six-decimal tolerance?
func (o Out) Accepts(v float64) bool {
	const tol = 1.5e-6
	if math.Abs(v-o.Val) <= tol {
		return true
	}
	for _, a := range o.Alt {
		if math.Abs(v-a) <= tol {
			return true
		}
	}
	return false
}

var Funs = []string{"avg", "count", "delta", "derive", "last", "max", "min", "stdev", "sum", "percentiles"}
