// Package dh drives one real carbon destination against a loopback endpoint
// (C05, C06, C07): hand-off, warm-up, sentinel-based completion, counters.
package dh

import (
	"bytes"
	"fmt"
	"os"
	"runtime"
	"strings"
	"time"

	dest "github.com/grafana/carbon-relay-ng/destination"
	"github.com/grafana/carbon-relay-ng/matcher"

	"verifharness/internal/ep"
	"verifharness/internal/h"
)

type Opts struct {
	Route                 string
	Addr                  string
	Spool, Pickle         bool
	SpoolDir              string
	Flush, Reconn         time.Duration
	ConnBuf, IoBuf        int
	SpoolBuf              int
	SpoolMaxBytes         int64
	SpoolSyncEvery        int64
	SpoolSyncPeriod       time.Duration
	SpoolSleep, Unspool   time.Duration
}

type DH struct {
	D        *dest.Destination
	LastDiag string
	Key  string
	seq  int
	base struct{ slowConn, connDown, slowSpool, out, badPickle int64 }
}

func fill(o *Opts) {
	if o.Route == "" {
		o.Route = "dh"
	}
	if o.Flush == 0 {
		o.Flush = 5 * time.Millisecond
	}
	if o.Reconn == 0 {
		o.Reconn = 200 * time.Millisecond // a first dial that fails (e.g. ephemeral ports exhausted for a moment) is retried
	}
	if o.IoBuf == 0 {
		o.IoBuf = 4096
	}
	if o.SpoolDir == "" {
		o.SpoolDir = "/nonexistent-spool"
	}
	if o.SpoolBuf == 0 {
		o.SpoolBuf = 1000
	}
	if o.SpoolMaxBytes == 0 {
		o.SpoolMaxBytes = 1 << 20
	}
	if o.SpoolSyncEvery == 0 {
		o.SpoolSyncEvery = 1000
	}
	if o.SpoolSyncPeriod == 0 {
		o.SpoolSyncPeriod = time.Second
	}
	if o.SpoolSleep == 0 {
		o.SpoolSleep = 10 * time.Microsecond
	}
	if o.Unspool == 0 {
		o.Unspool = 10 * time.Microsecond
	}
}

// Start creates and runs the destination.
func Start(o Opts) *DH {
	h.Init()
	fill(&o)
	d, err := dest.New(o.Route, matcher.Matcher{}, o.Addr, o.SpoolDir, o.Spool, o.Pickle, o.Flush, o.Reconn, o.ConnBuf, o.IoBuf,
		o.SpoolBuf, o.SpoolMaxBytes, o.SpoolSyncEvery, o.SpoolSyncPeriod, o.SpoolSleep, o.Unspool)
	if err != nil {
		panic("HARNESS-ERROR: " + err.Error())
	}
	x := &DH{D: d, Key: d.Key}
	x.Rebase()
	d.Run()
	return x
}

// Stop shuts the destination down (bounded) and then waits (bounded) until it has closed
// its connections to the given endpoints; returns false if Shutdown did not return in time.
func (x *DH) Stop(bound time.Duration, eps ...*ep.Endpoint) bool {
	done := make(chan struct{})
	go func() { x.D.Shutdown(); close(done) }()
	select {
	case <-done:
	case <-time.After(bound):
		return false
	}
	for _, e := range eps {
		e.WaitPeerClosed(2 * time.Second)
	}
	return true
}

func (x *DH) c(suffix string) int64 { return h.Count("dest=" + x.Key + "." + suffix) }

// Rebase makes the counter deltas start from now.
func (x *DH) Rebase() {
	x.base.slowConn = x.c("unit=Metric.action=drop.reason=slow_conn")
	x.base.connDown = x.c("unit=Metric.action=drop.reason=conn_down_no_spool")
	x.base.slowSpool = x.c("unit=Metric.action=drop.reason=slow_spool")
	x.base.out = x.c("unit=Metric.direction=out")
	x.base.badPickle = x.c("unit=Metric.action=drop.reason=bad_pickle")
}

func (x *DH) SlowConn() int64  { return x.c("unit=Metric.action=drop.reason=slow_conn") - x.base.slowConn }
func (x *DH) ConnDown() int64  { return x.c("unit=Metric.action=drop.reason=conn_down_no_spool") - x.base.connDown }
func (x *DH) SlowSpool() int64 { return x.c("unit=Metric.action=drop.reason=slow_spool") - x.base.slowSpool }
func (x *DH) Out() int64       { return x.c("unit=Metric.direction=out") - x.base.out }
func (x *DH) BadPickle() int64 { return x.c("unit=Metric.action=drop.reason=bad_pickle") - x.base.badPickle }

// Hand gives one line to the destination, the way a route does; returns how long the hand-off took.
func (x *DH) Hand(line []byte) time.Duration {
	t0 := time.Now()
	x.D.In <- line
	return time.Since(t0)
}

// HandBounded is Hand with a bound: ok=false if the hand-off did not return in time.
func (x *DH) HandBounded(line []byte, bound time.Duration) (time.Duration, bool) {
	t0 := time.Now()
	select {
	case x.D.In <- line:
		return time.Since(t0), true
	case <-time.After(bound):
		return time.Since(t0), false
	}
}

// Marker returns a fresh unique line that is valid in plain and pickle mode.
func (x *DH) Marker(tag string) []byte {
	x.seq++
	return []byte(fmt.Sprintf("verif.%s.%d 1 %d", tag, x.seq, 1500000000+x.seq))
}

// PushUntilSeen hands fresh markers (one at a time, every `every`) until one of
// them shows up in what `view` returns; returns the marker that arrived, all
// markers handed, and false on timeout.  Because one goroutine writes a
// connection in FIFO order, everything handed before the arrived marker has by
// then either arrived or been counted as dropped.
func (x *DH) PushUntilSeen(tag string, view func() []byte, contains func(stream, marker []byte) bool, every, timeout time.Duration) (arrived []byte, handed [][]byte, ok bool) {
	deadline := time.Now().Add(timeout)
	for {
		m := x.Marker(tag)
		handed = append(handed, m)
		x.Hand(m)
		until := time.Now().Add(every)
		for time.Now().Before(until) {
			s := view()
			for _, hm := range handed {
				if contains(s, hm) {
					return hm, handed, true
				}
			}
			time.Sleep(100 * time.Microsecond)
		}
		if time.Now().After(deadline) {
			return nil, handed, false
		}
	}
}

// Diag describes the state of the destination and its endpoint (for harness-error reports).
func (x *DH) Diag(e *ep.Endpoint) string {
	buf := make([]byte, 1<<20)
	buf = buf[:runtime.Stack(buf, true)]
	var keep []string
	for _, g := range strings.Split(string(buf), "\n\n") {
		if strings.Contains(g, "carbon-relay-ng/destination") {
			keep = append(keep, g)
		}
	}
	// kernel view of the endpoint's port: LISTEN sockets (rx_queue = connections waiting to be accepted) and connections
	var socks []string
	if b, err := os.ReadFile("/proc/net/tcp"); err == nil {
		hexPort := fmt.Sprintf(":%04X ", e.Port)
		for _, l := range strings.Split(string(b), "\n") {
			if strings.Contains(l, hexPort) {
				f := strings.Fields(l)
				if len(f) > 9 {
					socks = append(socks, fmt.Sprintf("%s->%s st=%s tx:rx=%s inode=%s", f[1], f[2], f[3], f[4], f[9]))
				}
			}
		}
	}
	return fmt.Sprintf("incarnations=%d received=%dB out=%d slow_conn=%d conn_down=%d slow_spool=%d endpoint: %s\nsockets on port %d: %v\n%s",
		len(e.Incarnations()), len(e.All()), x.Out(), x.SlowConn(), x.ConnDown(), x.SlowSpool(), e.Status(), e.Port, socks, strings.Join(keep, "\n\n"))
}

// PlainContains: the stream contains the marker as a complete line.
func PlainContains(stream, marker []byte) bool {
	return bytes.Contains(stream, append(append([]byte("\n"), marker...), '\n')) || bytes.HasPrefix(stream, append(append([]byte(nil), marker...), '\n'))
}

// NameContains: the stream contains the marker's name (works for pickle frames too).
func NameContains(stream, marker []byte) bool {
	name := marker[:bytes.IndexByte(marker, ' ')]
	return bytes.Contains(stream, name)
}

// WaitUp waits until the destination forwards to e (warm-up markers), then rebases the counters.
// Returns the offset in e's concatenated stream after the warm-up traffic.
func (x *DH) WaitUp(e *ep.Endpoint, timeout time.Duration) (int, bool) {
	if !e.WaitAccept(1, timeout) {
		x.LastDiag = "no connection accepted; " + x.Diag(e)
		return 0, false
	}
	_, handed, ok := x.PushUntilSeen("warm", e.All, NameContains, 5*time.Millisecond, timeout)
	if !ok {
		x.LastDiag = fmt.Sprintf("none of %d warm-up markers arrived; ", len(handed)) + x.Diag(e)
		return 0, false
	}
	// barrier with the relay loop (the fate of the last marker is decided), then start counting from here.
	// Late warm-up markers may still arrive: analyses ignore every name that starts with "verif.warm".
	x.D.Flush()
	off := len(e.All())
	x.Rebase()
	return off, true
}
