// Package dqh wraps nsqd.DiskQueue for the C08/C09 harnesses: synchronous
// get with hang detection, directory snapshots, the crash-point callback.
package dqh

import (
	"encoding/binary"
	"fmt"
	"os"
	"path/filepath"
	"sort"
	"sync"
	"time"

	"github.com/grafana/carbon-relay-ng/nsqd"
	"pgregory.net/rapid"
)

const QName = "q"

type Q struct {
	Dir       string
	Max, Sync int64
	BQ        nsqd.BackendQueue
	DQ        *nsqd.DiskQueue
}

// Open opens (or reopens) the queue in dir.  syncTimeout is 1h so that syncs
// are driven by the operation count only and the I/O loop's behaviour is a
// function of the history.
// SyncTimeout is the queue's periodic-sync interval used by Open.  One hour (the default) makes syncs count-driven and the
// I/O loop's iteration sequence a function of the history; a check that wants the timer to fire sets a short one.
var SyncTimeout = time.Hour

func Open(dir string, max, syncEvery int64) *Q {
	bq := nsqd.NewDiskQueue(QName, dir, max, syncEvery, SyncTimeout)
	return &Q{Dir: dir, Max: max, Sync: syncEvery, BQ: bq, DQ: bq.(*nsqd.DiskQueue)}
}

func (q *Q) Put(m []byte) error { return q.BQ.Put(m) }

// Get receives one message; ok=false after the timeout (hang / empty queue).
func (q *Q) Get(timeout time.Duration) ([]byte, bool) {
	select {
	case m := <-q.BQ.ReadChan():
		return m, true
	case <-time.After(timeout):
		return nil, false
	}
}

func (q *Q) Close() error { return q.BQ.Close() }

// ---- crash-point callback plumbing -----------------------------------------

var (
	cbMu       sync.Mutex
	cbs        = map[*nsqd.DiskQueue]func(point string){}
	defaultCb  func(point string) // used for a queue that is being opened (its I/O loop starts inside NewDiskQueue)
)

// OpenWithHook opens the queue with f receiving every crash point from the
// very first one (the I/O loop starts running inside NewDiskQueue).
func OpenWithHook(dir string, max, syncEvery int64, f func(point string)) *Q {
	cbMu.Lock()
	defaultCb = f
	cbMu.Unlock()
	q := Open(dir, max, syncEvery)
	cbMu.Lock()
	cbs[q.DQ] = f
	defaultCb = nil
	cbMu.Unlock()
	return q
}

func init() {
	nsqd.VerifCrashPoint = func(d *nsqd.DiskQueue, point string) {
		cbMu.Lock()
		f := cbs[d]
		if f == nil {
			f = defaultCb
		}
		cbMu.Unlock()
		if f != nil {
			f(point)
		}
	}
}

// OnPoint registers f to be called (on the queue's own goroutine) at each
// crash point of q.  nil unregisters.
func (q *Q) OnPoint(f func(point string)) {
	cbMu.Lock()
	if f == nil {
		delete(cbs, q.DQ)
	} else {
		cbs[q.DQ] = f
	}
	cbMu.Unlock()
}

// ---- directory snapshots ------------------------------------------------------

type Snapshot map[string][]byte

func TakeSnapshot(dir string) Snapshot {
	s := Snapshot{}
	ents, err := os.ReadDir(dir)
	if err != nil {
		return s
	}
	for _, e := range ents {
		if e.IsDir() {
			continue
		}
		b, err := os.ReadFile(filepath.Join(dir, e.Name()))
		if err == nil {
			s[e.Name()] = b
		}
	}
	return s
}

func (s Snapshot) Restore(dir string) {
	os.RemoveAll(dir)
	if err := os.MkdirAll(dir, 0755); err != nil {
		panic("HARNESS-ERROR: " + err.Error())
	}
	for n, b := range s {
		if err := os.WriteFile(filepath.Join(dir, n), b, 0600); err != nil {
			panic("HARNESS-ERROR: " + err.Error())
		}
	}
}

func (s Snapshot) Describe() string {
	names := make([]string, 0, len(s))
	for n := range s {
		names = append(names, n)
	}
	sort.Strings(names)
	out := ""
	for _, n := range names {
		if filepath.Ext(n) == ".dat" && len(s[n]) < 64 && (len(n) > 8 && n[len(n)-8:] == "meta.dat") {
			out += fmt.Sprintf("%s=%q ", n, s[n])
		} else {
			out += fmt.Sprintf("%s(%dB) ", n, len(s[n]))
		}
	}
	return out
}

// ---- messages -------------------------------------------------------------------

// Msg builds a message of the given length that embeds seq when it fits
// (>= 4 bytes), so that longer messages are unique.
func Msg(seq uint32, n int) []byte {
	m := make([]byte, n)
	for i := range m {
		m[i] = byte('a' + (int(seq)+i)%26)
	}
	if n >= 4 {
		binary.BigEndian.PutUint32(m, seq)
	}
	return m
}

// MsgLen draws a message length relative to the segment limit: 0, tiny,
// around the limit, up to 3 segments.
func MsgLen(t *rapid.T, max int64) int {
	m := int(max)
	switch rapid.IntRange(0, 9).Draw(t, "lenclass") {
	case 0:
		return 0
	case 1, 2, 3:
		return rapid.IntRange(1, 8).Draw(t, "len")
	case 4, 5:
		lo := m - 6
		if lo < 0 {
			lo = 0
		}
		return rapid.IntRange(lo, m+2).Draw(t, "len") // straddles the limit with the 4-byte header
	case 6:
		return rapid.IntRange(m, 3*m+1).Draw(t, "len")
	default:
		hi := m / 2
		if hi < 1 {
			hi = 1
		}
		return rapid.IntRange(0, hi).Draw(t, "len")
	}
}

var dirSeq int

// ScratchDir returns a fresh empty directory (tmpfs when available).
func ScratchDir(tag string) string {
	base := os.Getenv("VERIF_SCRATCH")
	if base == "" {
		base = "/dev/shm"
		if _, err := os.Stat(base); err != nil {
			base = os.TempDir()
		}
	}
	dirSeq++
	d := filepath.Join(base, fmt.Sprintf("dq-%s-%d-%d", tag, os.Getpid(), dirSeq))
	os.RemoveAll(d)
	if err := os.MkdirAll(d, 0755); err != nil {
		panic("HARNESS-ERROR: " + err.Error())
	}
	return d
}
