// Package ep provides loopback TCP endpoints with scripted behaviour for the
// checks that drive real destinations (C04-C07): they record the byte stream
// of every accepted connection ("incarnation") and keep every connection
// referenced until the endpoint is closed.
package ep

import (
	"bytes"
	"context"
	"fmt"
	"net"
	"os"
	"sync"
	"sync/atomic"
	"syscall"
	"time"
)

type Mode int32

const (
	Healthy   Mode = iota // read everything as fast as possible
	BlackHole             // accept, never read
	Throttled             // read ThrottleBytes every millisecond
)

type Incarnation struct {
	mu     sync.Mutex
	conn   net.Conn
	data   bytes.Buffer
	closed bool // closed by the endpoint or EOF seen
}

// RemoteAddr is the peer's address of this accepted connection.
func (i *Incarnation) RemoteAddr() string { return i.conn.RemoteAddr().String() }

func (i *Incarnation) Bytes() []byte {
	i.mu.Lock()
	defer i.mu.Unlock()
	return append([]byte(nil), i.data.Bytes()...)
}

func (i *Incarnation) Len() int {
	i.mu.Lock()
	defer i.mu.Unlock()
	return i.data.Len()
}

type Endpoint struct {
	ln            *net.TCPListener
	Addr          string
	Port          int
	mode          int32
	ThrottleBytes int
	CloseAfter    int64 // close each connection after this many bytes (0 = never)
	mu            sync.Mutex
	incs          []*Incarnation
	accepted      chan struct{}
	done          chan struct{}
	wg            sync.WaitGroup
	downOnce      sync.Once
	acceptErr     error
	isDown        bool
	downRst       bool
	total         int64
}

// New starts a listening endpoint on a free loopback port.
func New() *Endpoint { return NewOnBuf(LoopIP()+":0", 0) }

// LoopIP is a loopback address private to this process (127.A.B.1 derived from the pid).
// Destinations reconnect to the port of an endpoint that has gone away; with several check
// processes running side by side and every listener on 127.0.0.1, the kernel hands such a port
// to another process's new listener sooner or later, and foreign lines show up in its stream
// (seen in the sharded thorough tier: "received 390501 of 270600 metrics").  Distinct addresses
// keep the port spaces of concurrent processes apart.
func LoopIP() string {
	pid := os.Getpid()
	return fmt.Sprintf("127.%d.%d.1", 1+(pid/254)%254, 1+pid%254)
}

// NewSmallBuf: like New, with SO_RCVBUF set on the LISTENING socket (inherited by
// accepted connections, so the TCP window is small from the handshake on; shrinking the
// buffer of an established connection makes the kernel drop in-flight data and the
// sender back off for minutes).
func NewSmallBuf(rcvbuf int) *Endpoint { return NewOnBuf(LoopIP()+":0", rcvbuf) }

// NewOn listens on a specific address (used to bring an endpoint back up on the same port).
func NewOn(addr string) *Endpoint { return NewOnBuf(addr, 0) }

func NewOnBuf(addr string, rcvbuf int) *Endpoint {
	var ln *net.TCPListener
	var err error
	lc := net.ListenConfig{Control: func(network, address string, c syscall.RawConn) error {
		var serr error
		c.Control(func(fd uintptr) {
			syscall.SetsockoptInt(int(fd), syscall.SOL_SOCKET, syscall.SO_REUSEADDR, 1)
			if rcvbuf > 0 {
				serr = syscall.SetsockoptInt(int(fd), syscall.SOL_SOCKET, syscall.SO_RCVBUF, rcvbuf)
			}
		})
		return serr
	}}
	for try := 0; try < 200; try++ {
		var l net.Listener
		l, err = lc.Listen(context.Background(), "tcp", addr)
		if err == nil {
			ln = l.(*net.TCPListener)
			break
		}
		time.Sleep(5 * time.Millisecond)
	}
	if err != nil {
		panic("HARNESS-ERROR: cannot listen on " + addr + ": " + err.Error())
	}
	e := &Endpoint{ln: ln, Addr: ln.Addr().String(), Port: ln.Addr().(*net.TCPAddr).Port, ThrottleBytes: 512,
		accepted: make(chan struct{}, 1024), done: make(chan struct{})}
	e.wg.Add(1)
	go e.acceptLoop()
	return e
}

func (e *Endpoint) SetMode(m Mode) { atomic.StoreInt32(&e.mode, int32(m)) }
func (e *Endpoint) Mode() Mode      { return Mode(atomic.LoadInt32(&e.mode)) }

func (e *Endpoint) acceptLoop() {
	defer e.wg.Done()
	for {
		c, err := e.ln.AcceptTCP()
		if err != nil {
			e.mu.Lock()
			e.acceptErr = err
			e.mu.Unlock()
			return
		}
		inc := &Incarnation{conn: c}
		e.mu.Lock()
		if e.isDown {
			// accepted while Down() was closing the others: an endpoint that has gone away keeps no connection open
			// (left open and unread, the relay would write into it "successfully" for ever)
			e.mu.Unlock()
			if e.downRst {
				c.SetLinger(0)
			}
			c.Close()
			return
		}
		e.incs = append(e.incs, inc)
		e.mu.Unlock()
		select {
		case e.accepted <- struct{}{}:
		default:
		}
		e.wg.Add(1)
		go e.serve(inc)
	}
}

func (e *Endpoint) serve(inc *Incarnation) {
	defer e.wg.Done()
	buf := make([]byte, 64*1024)
	var n64 int64
	for {
		select {
		case <-e.done:
			return
		default:
		}
		switch e.Mode() {
		case BlackHole:
			time.Sleep(time.Millisecond)
			continue
		case Throttled:
			time.Sleep(time.Millisecond)
		}
		lim := len(buf)
		if e.Mode() == Throttled && e.ThrottleBytes < lim {
			lim = e.ThrottleBytes
		}
		inc.conn.SetReadDeadline(time.Now().Add(20 * time.Millisecond))
		n, err := inc.conn.Read(buf[:lim])
		if n > 0 {
			inc.mu.Lock()
			inc.data.Write(buf[:n])
			inc.mu.Unlock()
			atomic.AddInt64(&e.total, int64(n))
			n64 += int64(n)
			if e.CloseAfter > 0 && n64 >= e.CloseAfter {
				inc.mu.Lock()
				inc.closed = true
				inc.mu.Unlock()
				inc.conn.Close()
				return
			}
		}
		if err != nil {
			if ne, ok := err.(net.Error); ok && ne.Timeout() {
				continue
			}
			inc.mu.Lock()
			inc.closed = true
			inc.mu.Unlock()
			return
		}
	}
}

// WaitAccept waits until at least n connections have been accepted in total.
func (e *Endpoint) WaitAccept(n int, timeout time.Duration) bool {
	deadline := time.Now().Add(timeout)
	for {
		e.mu.Lock()
		k := len(e.incs)
		e.mu.Unlock()
		if k >= n {
			return true
		}
		if time.Now().After(deadline) {
			return false
		}
		select {
		case <-e.accepted:
		case <-time.After(time.Millisecond):
		}
	}
}

func (e *Endpoint) Incarnations() []*Incarnation {
	e.mu.Lock()
	defer e.mu.Unlock()
	return append([]*Incarnation(nil), e.incs...)
}

// Total bytes received over all incarnations.
func (e *Endpoint) Total() int64 { return atomic.LoadInt64(&e.total) }

// All returns the concatenation of all incarnations' streams.
func (e *Endpoint) All() []byte {
	var out []byte
	for _, i := range e.Incarnations() {
		out = append(out, i.Bytes()...)
	}
	return out
}

// Status describes the endpoint for diagnostics.
func (e *Endpoint) Status() string {
	e.mu.Lock()
	defer e.mu.Unlock()
	return fmt.Sprintf("addr=%s mode=%d accepted=%d acceptLoopEnded=%v", e.Addr, e.Mode(), len(e.incs), e.acceptErr)
}

// WaitPeerClosed waits (bounded) until the peer has closed every accepted connection,
// i.e. every serve loop has seen EOF or an error.  Destination.Shutdown returns as soon
// as the relay loop has taken the signal; the final flush and the close of the connection
// happen after that, and closing the endpoint in between leaves the relay goroutine
// blocked forever in Conn.Flush (HandleData has already gone): a leak per case.
func (e *Endpoint) WaitPeerClosed(timeout time.Duration) bool {
	deadline := time.Now().Add(timeout)
	for {
		open := 0
		for _, i := range e.Incarnations() {
			i.mu.Lock()
			if !i.closed {
				open++
			}
			i.mu.Unlock()
		}
		if open == 0 {
			return true
		}
		if time.Now().After(deadline) {
			return false
		}
		time.Sleep(200 * time.Microsecond)
	}
}

// Down stops listening and closes every connection (the endpoint goes away;
// new connection attempts are refused).  With rst the connections are reset.
func (e *Endpoint) Down(rst bool) {
	e.downOnce.Do(func() { e.down(rst) })
}

func (e *Endpoint) down(rst bool) {
	e.ln.Close()
	close(e.done)
	e.mu.Lock()
	e.isDown, e.downRst = true, rst
	for _, i := range e.incs {
		if rst {
			if tc, ok := i.conn.(*net.TCPConn); ok {
				tc.SetLinger(0)
			}
		}
		i.conn.Close()
		i.mu.Lock()
		i.closed = true
		i.mu.Unlock()
	}
	e.mu.Unlock()
	e.wg.Wait()
}

// Close is Down without reset.
func (e *Endpoint) Close() { e.Down(false) }

var _ = syscall.SO_RCVBUF
