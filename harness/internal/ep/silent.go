package ep

import (
	"fmt"
	"net"
	"syscall"
	"time"
)

// Silent is an endpoint address that neither accepts nor refuses: a listening socket with a backlog of 0 whose accept
// queue is kept full by filler connections that nobody accepts.  The kernel then drops every further SYN without an
// answer, so a dial to Addr hangs (until the dialer's own timeout, by default about two minutes) exactly like a dial
// to a host behind a firewall that swallows packets.  Close() closes the socket; a hanging dial then fails with
// "connection refused" at its next SYN retransmission (1, 3, 7, 15 ... s after it started).
type Silent struct {
	Addr    string
	fd      int
	fillers []net.Conn
}

// NewSilent returns nil if the kernel does not behave as described (then the caller skips the scenario).
func NewSilent() *Silent {
	fd, err := syscall.Socket(syscall.AF_INET, syscall.SOCK_STREAM, 0)
	if err != nil {
		return nil
	}
	syscall.SetsockoptInt(fd, syscall.SOL_SOCKET, syscall.SO_REUSEADDR, 1)
	ip := net.ParseIP(LoopIP()).To4()
	sa := &syscall.SockaddrInet4{Port: 0}
	copy(sa.Addr[:], ip)
	if err := syscall.Bind(fd, sa); err != nil {
		syscall.Close(fd)
		return nil
	}
	if err := syscall.Listen(fd, 0); err != nil {
		syscall.Close(fd)
		return nil
	}
	got, err := syscall.Getsockname(fd)
	if err != nil {
		syscall.Close(fd)
		return nil
	}
	s := &Silent{fd: fd, Addr: fmt.Sprintf("%s:%d", LoopIP(), got.(*syscall.SockaddrInet4).Port)}
	for i := 0; i < 16; i++ {
		c, err := net.DialTimeout("tcp", s.Addr, 250*time.Millisecond)
		if err != nil {
			if ne, ok := err.(net.Error); ok && ne.Timeout() {
				return s // the queue is full: this dial got no answer
			}
			break
		}
		s.fillers = append(s.fillers, c)
	}
	s.Close()
	return nil
}

func (s *Silent) Close() {
	for _, c := range s.fillers {
		c.Close()
	}
	s.fillers = nil
	if s.fd >= 0 {
		syscall.Close(s.fd)
		s.fd = -1
	}
}
