package ep

import (
	"net"
	"testing"
	"time"
)

func TestSilent(t *testing.T) {
	s := NewSilent()
	if s == nil {
		t.Fatal("no silent endpoint on this kernel")
	}
	t.Logf("addr %s fillers %d", s.Addr, len(s.fillers))
	t0 := time.Now()
	done := make(chan error, 1)
	go func() { _, err := net.Dial("tcp", s.Addr); done <- err }()
	select {
	case err := <-done:
		t.Fatalf("dial returned after %s: %v", time.Since(t0), err)
	case <-time.After(1500 * time.Millisecond):
	}
	s.Close()
	select {
	case err := <-done:
		t.Logf("after close: dial returned after %s: %v", time.Since(t0), err)
	case <-time.After(10 * time.Second):
		t.Fatalf("dial still hanging 10 s after close")
	}
}
