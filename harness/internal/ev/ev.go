// Package ev is the evidence recorder shared by all property packages.
//
// A property function calls Case(canonical, nontrivial, classes...) once per
// generated case that reached an oracle verdict.  The recorder keeps
//   - evaluations: number of Case calls,
//   - a set of 64-bit hashes of the canonical strings of non-trivial cases
//     (distinct_nontrivial is the size of that set, merged across shard
//     processes by the driver as a set union),
//   - per-class counters (generator distribution),
//   - the first few canonical strings of every class as samples.
//
// At process exit (TestMain -> ev.Exit) everything is written as JSON to
// $VERIF_STATS_FILE; the driver (/verif/check) merges the files of all
// processes of a run into /verif/evidence/<id>.json.
package ev

import (
	"bufio"
	"encoding/json"
	"fmt"
	"hash/fnv"
	"os"
	"sort"
	"strings"
	"sync"
	"testing"
)

const (
	maxNTHashes      = 400000
	samplesPerClass  = 3
	maxSampleLen     = 600
	maxTotalSamples  = 60
	ntSamplesWanted  = 8
	knownSamplesKept = 5
)

type Recorder struct {
	mu       sync.Mutex
	name     string
	evals    int64
	nt       map[uint64]struct{}
	ntCapped bool
	ntTotal  int64
	classes  map[string]int64
	samples  map[string][]string
	nSamples int
	known    map[string]int64
	knownS   map[string][]string
	notes    map[string]string
	nums     map[string]int64
}

var (
	regMu sync.Mutex
	reg   = map[string]*Recorder{}
)

// Get returns the process-wide recorder with that name (one per sub-check).
func Get(name string) *Recorder {
	regMu.Lock()
	defer regMu.Unlock()
	r := reg[name]
	if r == nil {
		r = &Recorder{name: name, nt: map[uint64]struct{}{}, classes: map[string]int64{},
			samples: map[string][]string{}, known: map[string]int64{}, knownS: map[string][]string{},
			notes: map[string]string{}, nums: map[string]int64{}}
		reg[name] = r
	}
	return r
}

func hash64(s string) uint64 {
	h := fnv.New64a()
	h.Write([]byte(s))
	return h.Sum64()
}

func clip(s string) string {
	if len(s) > maxSampleLen {
		return s[:maxSampleLen] + fmt.Sprintf("...(+%d bytes)", len(s)-maxSampleLen)
	}
	return s
}

// Case records one evaluated case.  canon must identify the case (used for
// distinctness); nontrivial is the property's stated rule applied to it.
func (r *Recorder) Case(canon string, nontrivial bool, classes ...string) {
	r.mu.Lock()
	defer r.mu.Unlock()
	r.evals++
	if nontrivial {
		r.ntTotal++
		if len(r.nt) < maxNTHashes {
			r.nt[hash64(canon)] = struct{}{}
		} else {
			r.ntCapped = true
		}
		classes = append(classes, "nontrivial")
	} else {
		classes = append(classes, "trivial")
	}
	for _, c := range classes {
		r.classes[c]++
		want := samplesPerClass
		if c == "nontrivial" {
			want = ntSamplesWanted
		}
		if len(r.samples[c]) < want && r.nSamples < maxTotalSamples {
			r.samples[c] = append(r.samples[c], clip(canon))
			r.nSamples++
		}
	}
}

// Class bumps a distribution counter without counting an evaluation.
func (r *Recorder) Class(c string, n int64) {
	r.mu.Lock()
	r.classes[c] += n
	r.mu.Unlock()
}

// Num accumulates a named number (summed across shards).
func (r *Recorder) Num(k string, n int64) {
	r.mu.Lock()
	r.nums[k] += n
	r.mu.Unlock()
}

func (r *Recorder) Note(k, v string) {
	r.mu.Lock()
	r.notes[k] = v
	r.mu.Unlock()
}

// ---- known findings -------------------------------------------------------

type finding struct {
	prop, sig, what string
}

var (
	kfOnce sync.Once
	kf     []finding
)

func loadKnown() {
	path := os.Getenv("VERIF_KNOWN_FINDINGS")
	if path == "" {
		path = "/verif/known_findings.txt"
	}
	f, err := os.Open(path)
	if err != nil {
		return
	}
	defer f.Close()
	sc := bufio.NewScanner(f)
	sc.Buffer(make([]byte, 1<<20), 1<<20)
	for sc.Scan() {
		line := strings.TrimSpace(sc.Text())
		// known: property=C14 sig=<token> <what fails>
		if !strings.HasPrefix(line, "known:") {
			continue
		}
		fs := strings.Fields(line[len("known:"):])
		var fd finding
		rest := []string{}
		for _, w := range fs {
			switch {
			case strings.HasPrefix(w, "property=") && fd.prop == "":
				fd.prop = w[len("property="):]
			case strings.HasPrefix(w, "sig=") && fd.sig == "":
				fd.sig = w[len("sig="):]
			default:
				rest = append(rest, w)
			}
		}
		fd.what = strings.Join(rest, " ")
		if fd.prop != "" && fd.sig != "" {
			kf = append(kf, fd)
		}
	}
}

// IsKnown says whether (property, signature) is listed as a known finding.
func IsKnown(prop, sig string) (string, bool) {
	kfOnce.Do(loadKnown)
	for _, f := range kf {
		if f.prop == prop && f.sig == sig {
			return f.what, true
		}
	}
	return "", false
}

// Known records that a generated case failed with a listed known-finding
// signature.  Prints the KNOWN-FINDING line once per process and signature.
func (r *Recorder) Known(prop, sig, what, canon string) {
	r.mu.Lock()
	defer r.mu.Unlock()
	if r.known[sig] == 0 {
		fmt.Printf("KNOWN-FINDING: property=%s sig=%s %s\n", prop, sig, what)
	}
	r.known[sig]++
	if len(r.knownS[sig]) < knownSamplesKept {
		r.knownS[sig] = append(r.knownS[sig], clip(canon))
	}
}

// ---- output ---------------------------------------------------------------

type outRec struct {
	Name      string              `json:"name"`
	Evals     int64               `json:"evaluations"`
	NTHashes  []string            `json:"nt_hashes"`
	NTTotal   int64               `json:"nontrivial_total"`
	NTCapped  bool                `json:"nt_capped"`
	Classes   map[string]int64    `json:"classes"`
	Samples   map[string][]string `json:"samples"`
	Known     map[string]int64    `json:"known_finding_hits"`
	KnownS    map[string][]string `json:"known_finding_samples"`
	Notes     map[string]string   `json:"notes"`
	Nums      map[string]int64    `json:"nums"`
}

// Flush writes all recorders to $VERIF_STATS_FILE (no-op when unset).
func Flush() {
	path := os.Getenv("VERIF_STATS_FILE")
	if path == "" {
		return
	}
	regMu.Lock()
	defer regMu.Unlock()
	names := make([]string, 0, len(reg))
	for n := range reg {
		names = append(names, n)
	}
	sort.Strings(names)
	out := []outRec{}
	for _, n := range names {
		r := reg[n]
		r.mu.Lock()
		o := outRec{Name: n, Evals: r.evals, NTTotal: r.ntTotal, NTCapped: r.ntCapped, Classes: r.classes,
			Samples: r.samples, Known: r.known, KnownS: r.knownS, Notes: r.notes, Nums: r.nums}
		for h := range r.nt {
			o.NTHashes = append(o.NTHashes, fmt.Sprintf("%x", h))
		}
		sort.Strings(o.NTHashes)
		out = append(out, o)
		r.mu.Unlock()
	}
	b, _ := json.Marshal(out)
	tmp := path + ".tmp"
	if err := os.WriteFile(tmp, b, 0644); err == nil {
		os.Rename(tmp, path)
	}
}

// Main is the TestMain body every property package uses.
func Main(m *testing.M) {
	code := m.Run()
	Flush()
	os.Exit(code)
}

// Tier returns "quick" or "thorough" (env VERIF_TIER, default quick).
func Tier() string {
	if os.Getenv("VERIF_TIER") == "thorough" {
		return "thorough"
	}
	return "quick"
}
