// Package gen holds the generators and the reference predicates shared by
// several property packages: metric names, the regex grammar, filters (the six
// options) with their independent reference meaning, numeric tokens.
//
// Every random choice is a rapid draw.
package gen

import (
	"fmt"
	"regexp"
	"regexp/syntax"
	"strings"

	"github.com/grafana/carbon-relay-ng/matcher"
	"pgregory.net/rapid"
)

// Fragments is the small alphabet names and filters are built from, so that
// overlaps / partial matches between filters and names are common.
var Fragments = []string{"foo", "bar", "baz", "a", "ab", "abc", "b", "c", "x", "1", "12", "5", "stats", "srv", "cpu", "_", "-", "ba", "o"}

func Frag(t *rapid.T, label string) string {
	return rapid.SampledFrom(Fragments).Draw(t, label)
}

// Name draws a legacy-style metric name accepted at validation level medium
// (the default): [A-Za-z0-9_.-]+ without leading dot.
func Name(t *rapid.T, label string) string {
	n := rapid.IntRange(1, 5).Draw(t, label+".n")
	parts := make([]string, n)
	for i := range parts {
		k := rapid.IntRange(1, 2).Draw(t, label+".k")
		s := ""
		for j := 0; j < k; j++ {
			s += Frag(t, label+".f")
		}
		parts[i] = s
	}
	return strings.Join(parts, ".")
}

// ---- regex grammar ----------------------------------------------------------

var quantifiers = []string{"?", "*", "+", "{0,2}", "{1,2}", "{0}", "*?", "??"}

func regexAtom(t *rapid.T, depth int) string {
	k := rapid.IntRange(0, 12).Draw(t, "atom")
	switch k {
	case 0, 1, 2, 3:
		return regexp.QuoteMeta(Frag(t, "lit"))
	case 4:
		return `\.`
	case 5:
		return `.`
	case 6:
		return rapid.SampledFrom([]string{"[a-c]", "[^.]", "[0-9]", "[abx]", "[^a]", `[a\.]`}).Draw(t, "class")
	case 7:
		return rapid.SampledFrom([]string{`\d`, `\w`, `\D`, `\W`}).Draw(t, "esc")
	case 8, 9:
		if depth >= 2 {
			return regexp.QuoteMeta(Frag(t, "lit"))
		}
		n := rapid.IntRange(1, 3).Draw(t, "nalt")
		alts := make([]string, n)
		for i := range alts {
			alts[i] = regexSeq(t, depth+1, 2)
		}
		open := rapid.SampledFrom([]string{"(", "(", "(?:"}).Draw(t, "open")
		return open + strings.Join(alts, "|") + ")"
	case 10:
		return rapid.SampledFrom([]string{"^", "$", `\b`}).Draw(t, "midanchor")
	case 12:
		// characters RE2 takes literally because they do not form a repetition or class: a bare brace, an unfinished count
		return rapid.SampledFrom([]string{"{", "}", "{,", "{1", "{,2}", "{a}", "]", "{1,"}).Draw(t, "litmeta")
	default:
		// a single literal character (so that quantifiers bind to it visibly)
		f := Frag(t, "lit1")
		return regexp.QuoteMeta(f[:1])
	}
}

func regexSeq(t *rapid.T, depth, maxAtoms int) string {
	n := rapid.IntRange(1, maxAtoms).Draw(t, "natoms")
	var sb strings.Builder
	for i := 0; i < n; i++ {
		a := regexAtom(t, depth)
		sb.WriteString(a)
		if a != "^" && a != "$" && a != `\b` && rapid.IntRange(0, 99).Draw(t, "q?") < 35 {
			sb.WriteString(rapid.SampledFrom(quantifiers).Draw(t, "quant"))
		}
	}
	return sb.String()
}

// Regex draws a syntactically valid RE2 pattern from the grammar; it
// deliberately produces ^literal followed by ?, *, {0,n}, top-level
// alternation, \. followed by a quantifier, groups, classes, escapes, anchors
// in the middle and unanchored patterns.
func Regex(t *rapid.T, label string) string {
	for try := 0; ; try++ {
		var sb strings.Builder
		if rapid.IntRange(0, 99).Draw(t, label+".flag") < 4 {
			sb.WriteString(rapid.SampledFrom([]string{"(?i)", "(?s)", "(?m)"}).Draw(t, "flag"))
		}
		nalt := 1
		if rapid.IntRange(0, 99).Draw(t, label+".alt") < 22 {
			nalt = rapid.IntRange(2, 3).Draw(t, "ntop")
		}
		for i := 0; i < nalt; i++ {
			if i > 0 {
				sb.WriteString("|")
			}
			if rapid.IntRange(0, 99).Draw(t, label+".caret") < 60 {
				sb.WriteString("^")
			}
			sb.WriteString(regexSeq(t, 0, 5))
			if rapid.IntRange(0, 99).Draw(t, label+".dollar") < 25 {
				sb.WriteString("$")
			}
		}
		re := sb.String()
		if _, err := regexp.Compile(re); err == nil && len(re) <= 40 {
			return re
		}
		if try > 20 {
			return "^" + regexp.QuoteMeta(Frag(t, "fallback"))
		}
	}
}

var soupTokens = []string{"^", "$", "foo", "a", "stats", "x", `\.`, ".", "*", "+", "?", "{", "}", "{2}", "{0,1}", "{,", "{1", "{1,", "{2,1}", "{99999}",
	"(", ")", "(?", "(?i)", "(?:", "(?P<n>", "[", "]", "[^", "[a-", "[[:alpha:]]", "|", `\`, `\d`, `\Q`, `\E`, `\p{`, `\pL`, `\x`, `\1`, `\b`, "-", "_", "\xff"}

// RegexSoup draws a short string over regex metacharacters and literals with no grammar at all; it may or may
// not compile.  It stands for what an operator can type into a regex option (no whitespace, no quotes).  Shape:
// optional '^', 0-2 literal tokens, then 1-3 arbitrary tokens (so that anchored literal prefixes followed by an odd
// tail -- the input of every prefix optimisation -- are frequent).
func RegexSoup(t *rapid.T, label string) string {
	var sb strings.Builder
	if rapid.IntRange(0, 9).Draw(t, label+".caret") < 6 {
		sb.WriteString("^")
	}
	for i, n := 0, rapid.IntRange(0, 2).Draw(t, label+".nlit"); i < n; i++ {
		sb.WriteString(rapid.SampledFrom([]string{"foo", "a", "stats", "x", `\.`, "-", "_", "1"}).Draw(t, label+".lit"))
	}
	for i, n := 0, rapid.IntRange(1, 3).Draw(t, label+".n"); i < n; i++ {
		sb.WriteString(rapid.SampledFrom(soupTokens).Draw(t, label+".tok"))
	}
	return sb.String()
}

const nameAlphabet = "abcxofr0125._-"

// SampleMatch walks the parsed pattern and produces a string that (very
// likely) matches it; used to make matching names frequent.
func SampleMatch(t *rapid.T, re string) string {
	p, err := syntax.Parse(re, syntax.Perl)
	if err != nil {
		return Name(t, "sm")
	}
	var sb strings.Builder
	sample(t, p, &sb, 0)
	return sb.String()
}

func pickRune(t *rapid.T, ranges []rune) rune {
	// prefer a rune of the name alphabet that lies in the class
	var ok []rune
	for _, c := range nameAlphabet {
		for i := 0; i+1 < len(ranges); i += 2 {
			if c >= ranges[i] && c <= ranges[i+1] {
				ok = append(ok, c)
				break
			}
		}
	}
	if len(ok) > 0 {
		return ok[rapid.IntRange(0, len(ok)-1).Draw(t, "cr")]
	}
	for i := 0; i+1 < len(ranges); i += 2 {
		for c := ranges[i]; c <= ranges[i+1] && c < 127; c++ {
			if c > 32 {
				return c
			}
		}
	}
	return 'q'
}

func sample(t *rapid.T, r *syntax.Regexp, sb *strings.Builder, depth int) {
	switch r.Op {
	case syntax.OpLiteral:
		for _, c := range r.Rune {
			sb.WriteRune(c)
		}
	case syntax.OpCharClass:
		sb.WriteRune(pickRune(t, r.Rune))
	case syntax.OpAnyChar, syntax.OpAnyCharNotNL:
		sb.WriteByte(nameAlphabet[rapid.IntRange(0, len(nameAlphabet)-1).Draw(t, "any")])
	case syntax.OpCapture:
		sample(t, r.Sub[0], sb, depth+1)
	case syntax.OpConcat:
		for _, s := range r.Sub {
			sample(t, s, sb, depth+1)
		}
	case syntax.OpAlternate:
		sample(t, r.Sub[rapid.IntRange(0, len(r.Sub)-1).Draw(t, "alt")], sb, depth+1)
	case syntax.OpStar, syntax.OpPlus, syntax.OpQuest, syntax.OpRepeat:
		lo, hi := 0, 2
		switch r.Op {
		case syntax.OpPlus:
			lo = 1
		case syntax.OpQuest:
			hi = 1
		case syntax.OpRepeat:
			lo, hi = r.Min, r.Max
			if hi < 0 || hi > lo+2 {
				hi = lo + 2
			}
		}
		n := rapid.IntRange(lo, hi).Draw(t, "rep")
		for i := 0; i < n; i++ {
			sample(t, r.Sub[0], sb, depth+1)
		}
	}
}

// Mutate applies at most one small edit.
func Mutate(t *rapid.T, s string) string {
	if len(s) == 0 {
		return s
	}
	switch rapid.IntRange(0, 5).Draw(t, "mut") {
	case 0: // drop a byte
		i := rapid.IntRange(0, len(s)-1).Draw(t, "mi")
		return s[:i] + s[i+1:]
	case 1: // insert a byte
		i := rapid.IntRange(0, len(s)).Draw(t, "mi")
		c := nameAlphabet[rapid.IntRange(0, len(nameAlphabet)-1).Draw(t, "mc")]
		return s[:i] + string(c) + s[i:]
	case 2: // replace a byte
		i := rapid.IntRange(0, len(s)-1).Draw(t, "mi")
		c := nameAlphabet[rapid.IntRange(0, len(nameAlphabet)-1).Draw(t, "mc")]
		return s[:i] + string(c) + s[i+1:]
	case 3: // truncate
		i := rapid.IntRange(1, len(s)).Draw(t, "mi")
		return s[:i]
	case 4: // drop the head
		i := rapid.IntRange(0, len(s)-1).Draw(t, "mi")
		return s[i:]
	}
	return s
}

// CleanName makes s usable as a metric name inside a line: no whitespace /
// control bytes, non-empty.
func CleanName(s string) string {
	var sb strings.Builder
	for i := 0; i < len(s); i++ {
		c := s[i]
		if c <= 32 || c >= 127 {
			continue
		}
		sb.WriteByte(c)
	}
	if sb.Len() == 0 {
		return "q"
	}
	return sb.String()
}

// ---- filters ----------------------------------------------------------------

// Filter is the abstract six-option filter.
type Filter struct {
	Prefix, NotPrefix, Sub, NotSub, Regex, NotRegex string
}

func (f Filter) String() string {
	return fmt.Sprintf("{prefix=%q notPrefix=%q sub=%q notSub=%q regex=%q notRegex=%q}", f.Prefix, f.NotPrefix, f.Sub, f.NotSub, f.Regex, f.NotRegex)
}

func (f Filter) IsEmpty() bool { return f == Filter{} }

// NumSet is the number of options set.
func (f Filter) NumSet() int {
	n := 0
	for _, s := range []string{f.Prefix, f.NotPrefix, f.Sub, f.NotSub, f.Regex, f.NotRegex} {
		if s != "" {
			n++
		}
	}
	return n
}

// Matcher builds the real matcher for this filter.
func (f Filter) Matcher() (matcher.Matcher, error) {
	return matcher.New(f.Prefix, f.NotPrefix, f.Sub, f.NotSub, f.Regex, f.NotRegex)
}

// MustMatcher panics on error (generators only produce valid regexes).
func (f Filter) MustMatcher() matcher.Matcher {
	m, err := f.Matcher()
	if err != nil {
		panic("HARNESS-ERROR: generated filter does not compile: " + f.String() + ": " + err.Error())
	}
	return m
}

// Ref is the reference meaning of a filter, transcribed from the property
// statement / docs: conjunction on the name, empty option = no constraint,
// regexes are unanchored RE2 searches compiled independently here.
type Ref struct {
	F        Filter
	re, nore *regexp.Regexp
}

func (f Filter) Ref() *Ref {
	r := &Ref{F: f}
	if f.Regex != "" {
		r.re = regexp.MustCompile(f.Regex)
	}
	if f.NotRegex != "" {
		r.nore = regexp.MustCompile(f.NotRegex)
	}
	return r
}

// Parts returns the verdict of each option separately (true = this option
// accepts the name); unset options report true.
func (r *Ref) Parts(name string) [6]bool {
	f := r.F
	return [6]bool{
		f.Prefix == "" || strings.HasPrefix(name, f.Prefix),
		f.NotPrefix == "" || !strings.HasPrefix(name, f.NotPrefix),
		f.Sub == "" || strings.Contains(name, f.Sub),
		f.NotSub == "" || !strings.Contains(name, f.NotSub),
		r.re == nil || r.re.MatchString(name),
		r.nore == nil || !r.nore.MatchString(name),
	}
}

func (r *Ref) Match(name string) bool {
	for _, b := range r.Parts(name) {
		if !b {
			return false
		}
	}
	return true
}

// Disagree reports whether the set options give different verdicts on name.
func (r *Ref) Disagree(name string) bool {
	f := r.F
	set := [6]bool{f.Prefix != "", f.NotPrefix != "", f.Sub != "", f.NotSub != "", f.Regex != "", f.NotRegex != ""}
	p := r.Parts(name)
	acc, rej := false, false
	for i := range p {
		if !set[i] {
			continue
		}
		if p[i] {
			acc = true
		} else {
			rej = true
		}
	}
	return acc && rej
}

var quantOrAlt = regexp.MustCompile(`[?*{|]`)

// RegexInteresting: a quantifier or alternation within the first few atoms.
func RegexInteresting(re string) bool {
	if re == "" {
		return false
	}
	head := re
	if len(head) > 12 {
		head = head[:12]
	}
	return quantOrAlt.MatchString(head)
}

func litOpt(t *rapid.T, label string, pct int) string {
	if rapid.IntRange(0, 99).Draw(t, label+"?") >= pct {
		return ""
	}
	n := rapid.IntRange(1, 2).Draw(t, label+".n")
	s := ""
	for i := 0; i < n; i++ {
		if i > 0 && rapid.Bool().Draw(t, label+".dot") {
			s += "."
		}
		s += Frag(t, label)
	}
	return s
}

// GenFilter draws a filter: each option present with probability pct %.
func GenFilter(t *rapid.T, label string, pct int) Filter {
	var f Filter
	f.Prefix = litOpt(t, label+".prefix", pct)
	f.NotPrefix = litOpt(t, label+".notPrefix", pct)
	f.Sub = litOpt(t, label+".sub", pct)
	f.NotSub = litOpt(t, label+".notSub", pct)
	if rapid.IntRange(0, 99).Draw(t, label+".regex?") < pct {
		f.Regex = Regex(t, label+".regex")
	}
	if rapid.IntRange(0, 99).Draw(t, label+".notRegex?") < pct {
		f.NotRegex = Regex(t, label+".notRegex")
	}
	return f
}

// NameFor draws a name biased to be relevant for the filter: sampled from one
// of its regexes or built from its literals, then possibly mutated.
func NameFor(t *rapid.T, f Filter, label string) string {
	var s string
	switch k := rapid.IntRange(0, 9).Draw(t, label+".src"); {
	case k <= 3 && f.Regex != "":
		s = SampleMatch(t, f.Regex)
		if !strings.HasPrefix(f.Regex, "^") && rapid.Bool().Draw(t, "pre") {
			s = Frag(t, "pre") + "." + s
		}
		if !strings.HasSuffix(f.Regex, "$") && rapid.Bool().Draw(t, "suf") {
			s = s + "." + Frag(t, "suf")
		}
	case k <= 5 && f.NotRegex != "":
		s = SampleMatch(t, f.NotRegex)
		if rapid.Bool().Draw(t, "pre") {
			s = f.Prefix + s
		}
	case k <= 7:
		s = f.Prefix
		if rapid.Bool().Draw(t, "mid") {
			s += "." + Frag(t, "mid")
		}
		s += f.Sub
		if rapid.Bool().Draw(t, "tail") {
			s += "." + Name(t, "tail")
		}
		if rapid.IntRange(0, 3).Draw(t, "addnot") == 0 {
			s += f.NotSub
		}
	default:
		s = Name(t, label)
	}
	if rapid.IntRange(0, 99).Draw(t, label+".mut") < 45 {
		s = Mutate(t, s)
	}
	return CleanName(s)
}

// ---- numeric tokens -----------------------------------------------------------

var ValueTokens = []string{"1", "0", "12", "5", "-3", "+5", "1e3", "1.5", ".5", "0x1p-2", "1E-2", "123456789.25", "NaN", "Inf", "-Inf", "007", "1.", "5e0"}

func ValueToken(t *rapid.T, label string) string {
	return rapid.SampledFrom(ValueTokens).Draw(t, label)
}

// TsToken draws an integer timestamp token (uint32 range, positive).
func TsToken(t *rapid.T, label string) string {
	return fmt.Sprintf("%d", rapid.SampledFrom([]int{1, 5, 12, 1000000005, 1234567890, 1500000012, 4294967295, 60, 1515151515}).Draw(t, label))
}
