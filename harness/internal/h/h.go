// Package h holds harness helpers shared by the property packages: capture
// route, counter destinations, counter readers, table builders.
package h

import (
	"fmt"
	"io"
	stdlog "log"
	"sync"
	"time"

	"github.com/grafana/carbon-relay-ng/aggregator"
	dest "github.com/grafana/carbon-relay-ng/destination"
	"github.com/grafana/carbon-relay-ng/matcher"
	"github.com/grafana/carbon-relay-ng/route"
	"github.com/grafana/carbon-relay-ng/stats"
	"github.com/grafana/carbon-relay-ng/table"
	"github.com/grafana/carbon-relay-ng/util"
	"github.com/grafana/carbon-relay-ng/validate"
	m20 "github.com/metrics20/go-metrics20/carbon20"
	log "github.com/sirupsen/logrus"
	"pgregory.net/rapid"
)

var initOnce sync.Once

// Init silences logging and initialises package-level metrics the way main() does.
func Init() {
	initOnce.Do(func() {
		log.SetLevel(log.PanicLevel)
		log.SetOutput(io.Discard)
		stdlog.SetOutput(io.Discard)
		aggregator.InitMetrics()
		// every connection pre-allocates 2x100000 slice headers (4.8 MB) and re-allocates half of that every 10s
		// for as long as its keepSafe lives (Destination.Shutdown does not stop it); with thousands of short-lived
		// destinations per process that is hundreds of MB of live heap and constant GC work.  Only the
		// pre-allocation is lowered; the buffers grow on demand.
		dest.VerifSetKeepSafeCap(64)
	})
}

// DrawLogLevel sets the relay's log level for the current case (the configuration knob log_level: most code that only
// runs at debug/trace level is logging, but it handles the very buffers that are forwarded) and returns a restore
// function.  Output goes nowhere.
func DrawLogLevel(t *rapid.T) (string, func()) {
	Init()
	lvl := rapid.SampledFrom([]string{"panic", "panic", "panic", "info", "debug", "trace"}).Draw(t, "log_level")
	l, _ := log.ParseLevel(lvl)
	log.SetLevel(l)
	return lvl, func() { log.SetLevel(log.PanicLevel) }
}

// ---- capture route -----------------------------------------------------------

type Received struct {
	Copy []byte // copy taken at call time
	Orig []byte // the slice itself (to detect later alteration)
}

// CaptureRoute implements route.Route.  Match delegates to a real matcher.
type CaptureRoute struct {
	mu     sync.Mutex
	key    string
	m      matcher.Matcher
	Got    []Received
	OnDisp func(buf []byte) // optional hook, called inside Dispatch before recording
}

func NewCaptureRoute(key string, m matcher.Matcher) *CaptureRoute {
	return &CaptureRoute{key: key, m: m}
}

func (c *CaptureRoute) Dispatch(buf []byte) {
	if c.OnDisp != nil {
		c.OnDisp(buf)
	}
	cp := make([]byte, len(buf))
	copy(cp, buf)
	c.mu.Lock()
	c.Got = append(c.Got, Received{cp, buf})
	c.mu.Unlock()
}
func (c *CaptureRoute) Match(s []byte) bool {
	c.mu.Lock()
	m := c.m
	c.mu.Unlock()
	return m.Match(s)
}
func (c *CaptureRoute) Snapshot() route.Snapshot {
	c.mu.Lock()
	defer c.mu.Unlock()
	return route.Snapshot{Matcher: c.m, Type: "capture", Key: c.key}
}
func (c *CaptureRoute) Key() string     { return c.key }
func (c *CaptureRoute) Flush() error    { return nil }
func (c *CaptureRoute) Shutdown() error { return nil }
func (c *CaptureRoute) GetDestination(index int) (*dest.Destination, error) {
	return nil, fmt.Errorf("capture route has no destinations")
}
func (c *CaptureRoute) DelDestination(index int) error { return fmt.Errorf("capture route has no destinations") }
func (c *CaptureRoute) UpdateDestination(index int, opts map[string]string) error {
	return fmt.Errorf("capture route has no destinations")
}
func (c *CaptureRoute) Update(opts map[string]string) error {
	c.mu.Lock()
	defer c.mu.Unlock()
	m := c.m
	p, np, s, ns, r, nr := m.Prefix, m.NotPrefix, m.Sub, m.NotSub, m.Regex, m.NotRegex
	for k, v := range opts {
		switch k {
		case "prefix":
			p = v
		case "notPrefix":
			np = v
		case "sub":
			s = v
		case "notSub":
			ns = v
		case "regex":
			r = v
		case "notRegex":
			nr = v
		default:
			return fmt.Errorf("no such option %q", k)
		}
	}
	nm, err := matcher.New(p, np, s, ns, r, nr)
	if err != nil {
		return err
	}
	c.m = nm
	return nil
}

// Lines returns the copies taken at receipt, as strings.
func (c *CaptureRoute) Lines() []string {
	c.mu.Lock()
	defer c.mu.Unlock()
	out := make([]string, len(c.Got))
	for i, r := range c.Got {
		out[i] = string(r.Copy)
	}
	return out
}

func (c *CaptureRoute) Reset() {
	c.mu.Lock()
	c.Got = nil
	c.mu.Unlock()
}

// ---- counter destinations ------------------------------------------------------

// CounterDest creates (not yet running) a real destination pointing at a
// refusing loopback port with spooling off: every line handed to it is
// counted in dest=<key>...reason=conn_down_no_spool.
func CounterDest(routeKey string, m matcher.Matcher, inst int) *dest.Destination {
	addr := fmt.Sprintf("127.0.0.1:1:i%d", inst)
	d, err := dest.New(routeKey, m, addr, "/nonexistent-spool", false, false,
		time.Hour, time.Hour, 10, 4096, 10, 1000, 1000, time.Hour, time.Millisecond, time.Millisecond)
	if err != nil {
		panic("HARNESS-ERROR: " + err.Error())
	}
	return d
}

func DestKey(routeKey string, inst int) string {
	return util.Key(routeKey, fmt.Sprintf("127.0.0.1:1:i%d", inst))
}

func Count(name string) int64 { return stats.Counter(name).Count() }

func DestDropNoConn(key string) int64 {
	return Count("dest=" + key + ".unit=Metric.action=drop.reason=conn_down_no_spool")
}

// TableCounters reads the table-level counters.
type TableCounters struct{ In, Invalid, OutOfOrder, Blacklist, Unroutable int64 }

func ReadTableCounters() TableCounters {
	return TableCounters{
		Count("unit=Metric.direction=in"),
		Count("unit=Err.type=invalid"),
		Count("unit=Err.type=out_of_order"),
		Count("unit=Metric.direction=blacklist"),
		Count("unit=Metric.direction=unroutable"),
	}
}

func (a TableCounters) Sub(b TableCounters) TableCounters {
	return TableCounters{a.In - b.In, a.Invalid - b.Invalid, a.OutOfOrder - b.OutOfOrder, a.Blacklist - b.Blacklist, a.Unroutable - b.Unroutable}
}

// NewTable builds a real table with the default (medium/none) validation.
func NewTable(order bool) *table.Table {
	return NewTableLevels(validate.LevelLegacy{Level: m20.MediumLegacy}, validate.LevelM20{Level: m20.NoneM20}, order)
}

var (
	sharedMu    sync.Mutex
	sharedTable *table.Table
)

// NewTableLevels returns the process-wide table, reset to an empty
// configuration with the given validation settings (a Table owns goroutines
// and a 100k-slot bad-metrics channel that are never released, so creating one
// per generated case exhausts memory).  Uses the verif-tagged Table.VerifReset.
func NewTableLevels(l validate.LevelLegacy, m validate.LevelM20, order bool) *table.Table {
	cfg, err := table.NewTableConfig("/nonexistent-spool", "1h", l, m, order)
	if err != nil {
		panic("HARNESS-ERROR: " + err.Error())
	}
	sharedMu.Lock()
	defer sharedMu.Unlock()
	if sharedTable == nil {
		sharedTable = table.New(cfg)
	} else {
		sharedTable.VerifReset(cfg)
	}
	return sharedTable
}

// AggBarrier waits until the aggregator has processed everything handed to it
// (requires inBuf=0): Snapshot is served by the same loop.
func AggBarrier(a *aggregator.Aggregator) { a.Snapshot() }

// TableInBarrier: table.In is unbuffered and served by one goroutine calling
// DispatchAggregate sequentially; when a second send is accepted, the first
// has been fully dispatched.  The sentinel must match no route.
func TableInBarrier(t *table.Table) {
	t.In <- []byte("verif.sentinel.nomatch 0 0")
	t.In <- []byte("verif.sentinel.nomatch 0 0")
}
