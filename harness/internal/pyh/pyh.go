// Package pyh talks to pyhelpers/pickle_server.py: CPython's own pickle module
// as an independent encoder (C13) and decoder (C16).
package pyh

import (
	"bufio"
	"encoding/hex"
	"encoding/json"
	"fmt"
	"os"
	"os/exec"
	"path/filepath"
	"sync"
)

type Spec struct {
	T  string      `json:"t"`
	V  interface{} `json:"v,omitempty"`
	ID *int        `json:"id,omitempty"`
	I  *int        `json:"i,omitempty"`
}

func List(v ...Spec) Spec  { return Spec{T: "list", V: v} }
func Tuple(v ...Spec) Spec { return Spec{T: "tuple", V: v} }
func Int(dec string) Spec  { return Spec{T: "int", V: dec} }
func Long(dec string) Spec { return Spec{T: "long", V: dec} }
func Float(r string) Spec  { return Spec{T: "float", V: r} }
func Str(s string) Spec    { return Spec{T: "str", V: s} }
func Uni(s string) Spec    { return Spec{T: "unicode", V: s} }
func None() Spec           { return Spec{T: "none"} }
func Dict() Spec           { return Spec{T: "dict"} }

// WithID registers the object built from s under number k; Ref(k) stands for that very object again (a shared
// reference: CPython then writes a memo opcode -- PUT/BINPUT/MEMOIZE once, GET/BINGET for every further use).
func (s Spec) WithID(k int) Spec { s.ID = &k; return s }
func Ref(k int) Spec             { return Spec{T: "ref", I: &k} }

type Server struct {
	mu      sync.Mutex
	cmd     *exec.Cmd
	in      *bufio.Writer
	out     *bufio.Reader
	Version string
	Impls   []string
}

func root() string {
	if r := os.Getenv("VERIF_ROOT"); r != "" {
		return r
	}
	return "/verif"
}

// StartScript launches pyhelpers/<script> (a JSON-lines server) with the given interpreter.
func StartScript(python, script string) (*Server, error) {
	cmd := exec.Command(python, "-u", filepath.Join(root(), "pyhelpers", script))
	cmd.Stderr = os.Stderr
	stdin, err := cmd.StdinPipe()
	if err != nil {
		return nil, err
	}
	stdout, err := cmd.StdoutPipe()
	if err != nil {
		return nil, err
	}
	if err := cmd.Start(); err != nil {
		return nil, err
	}
	return &Server{cmd: cmd, in: bufio.NewWriter(stdin), out: bufio.NewReaderSize(stdout, 1<<20)}, nil
}

// Call sends one request object and decodes the one-line JSON answer.
func (s *Server) Call(req interface{}, resp interface{}) error { return s.call(req, resp) }

// Start launches the pickle helper with the given interpreter.
func Start(python string) (*Server, error) {
	cmd := exec.Command(python, "-u", filepath.Join(root(), "pyhelpers", "pickle_server.py"))
	cmd.Stderr = os.Stderr
	stdin, err := cmd.StdinPipe()
	if err != nil {
		return nil, err
	}
	stdout, err := cmd.StdoutPipe()
	if err != nil {
		return nil, err
	}
	if err := cmd.Start(); err != nil {
		return nil, err
	}
	s := &Server{cmd: cmd, in: bufio.NewWriter(stdin), out: bufio.NewReaderSize(stdout, 1<<20)}
	var info struct {
		Version string   `json:"version"`
		Impls   []string `json:"impls"`
	}
	if err := s.call(map[string]interface{}{"op": "info"}, &info); err != nil {
		return nil, err
	}
	s.Version, s.Impls = info.Version, info.Impls
	return s, nil
}

func (s *Server) call(req interface{}, resp interface{}) error {
	s.mu.Lock()
	defer s.mu.Unlock()
	b, err := json.Marshal(req)
	if err != nil {
		return err
	}
	s.in.Write(b)
	s.in.WriteByte('\n')
	if err := s.in.Flush(); err != nil {
		return fmt.Errorf("python helper died: %v", err)
	}
	line, err := s.out.ReadBytes('\n')
	if err != nil {
		return fmt.Errorf("python helper died: %v", err)
	}
	var fatal struct {
		Fatal string `json:"fatal"`
	}
	json.Unmarshal(line, &fatal)
	if fatal.Fatal != "" {
		return fmt.Errorf("python helper error: %s", fatal.Fatal)
	}
	return json.Unmarshal(line, resp)
}

// Dumps pickles obj with CPython.
func (s *Server) Dumps(obj Spec, proto int, impl string) ([]byte, error) {
	var r struct {
		Hex string `json:"hex"`
	}
	if err := s.call(map[string]interface{}{"op": "dumps", "proto": proto, "impl": impl, "obj": obj}, &r); err != nil {
		return nil, err
	}
	return hex.DecodeString(r.Hex)
}

type Obj struct {
	T string          `json:"t"`
	V json.RawMessage `json:"v"`
}

// Loads unpickles b with CPython; pyErr is CPython's exception text if it refused.
func (s *Server) Loads(b []byte) (obj *Obj, pyErr string, err error) {
	var r struct {
		Obj   *Obj   `json:"obj"`
		Error string `json:"error"`
	}
	if err := s.call(map[string]interface{}{"op": "loads", "hex": hex.EncodeToString(b)}, &r); err != nil {
		return nil, "", err
	}
	return r.Obj, r.Error, nil
}

func (s *Server) Close() {
	s.mu.Lock()
	defer s.mu.Unlock()
	s.cmd.Process.Kill()
	s.cmd.Wait()
}

// Python2 returns the path of a python 2.7 interpreter if one is on the image.
func Python2() string {
	for _, p := range []string{"/root/.pyenv/versions/2.7.18/bin/python2.7", "/usr/bin/python2.7", "/usr/bin/python2"} {
		if _, err := os.Stat(p); err == nil {
			return p
		}
	}
	return ""
}

func Python3() string {
	for _, p := range []string{"/usr/bin/python3", "/usr/local/bin/python3"} {
		if _, err := os.Stat(p); err == nil {
			return p
		}
	}
	if p, err := exec.LookPath("python3"); err == nil {
		return p
	}
	return ""
}
