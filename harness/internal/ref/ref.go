// Package ref holds the reference model of the routing table (written from
// the property statements and the docs, not from the code) and the builder
// that constructs the corresponding real table: used by C01, C04, C11, C18.
package ref

import (
	"crypto/md5"
	"fmt"
	"regexp"
	"sort"
	"strings"
	"time"

	"github.com/grafana/carbon-relay-ng/aggregator"
	dest "github.com/grafana/carbon-relay-ng/destination"
	"github.com/grafana/carbon-relay-ng/matcher"
	"github.com/grafana/carbon-relay-ng/rewriter"
	"github.com/grafana/carbon-relay-ng/route"
	"github.com/grafana/carbon-relay-ng/table"
	"pgregory.net/rapid"

	"verifharness/internal/gen"
	"verifharness/internal/h"
)

// ---- reference rewriter (docs/rewriting.md) ------------------------------------------------

type RW struct {
	Old, New, Not string
	Max           int
}

func (r RW) String() string {
	return fmt.Sprintf("{old=%q new=%q not=%q max=%d}", r.Old, r.New, r.Not, r.Max)
}

func isRegex(s string) bool { return len(s) > 1 && s[0] == '/' && s[len(s)-1] == '/' }

// Do applies the rule to a name: skipped when the not-clause (substring, or
// /regex/) matches; /regex/ rules replace every match, expanding ${n}/$n in
// the template; literal rules replace the first Max occurrences (-1 = all).
func (r RW) Do(name string) string {
	if r.Not != "" {
		if isRegex(r.Not) {
			if regexp.MustCompile(r.Not[1 : len(r.Not)-1]).MatchString(name) {
				return name
			}
		} else if strings.Contains(name, r.Not) {
			return name
		}
	}
	if isRegex(r.Old) {
		re := regexp.MustCompile(r.Old[1 : len(r.Old)-1])
		var out []byte
		last := 0
		for _, m := range re.FindAllStringSubmatchIndex(name, -1) {
			out = append(out, name[last:m[0]]...)
			out = re.ExpandString(out, r.New, name, m)
			last = m[1]
		}
		out = append(out, name[last:]...)
		return string(out)
	}
	if r.Max == 0 {
		return name
	}
	// first Max non-overlapping occurrences, left to right
	var sb strings.Builder
	n := 0
	rest := name
	for r.Max < 0 || n < r.Max {
		i := strings.Index(rest, r.Old)
		if i < 0 {
			break
		}
		sb.WriteString(rest[:i])
		sb.WriteString(r.New)
		rest = rest[i+len(r.Old):]
		n++
	}
	sb.WriteString(rest)
	return sb.String()
}

func (r RW) Real() (rewriter.RW, error) { return rewriter.New(r.Old, r.New, r.Not, r.Max) }

// GenRW draws a rewriter rule.
func GenRW(t *rapid.T) RW {
	var r RW
	if rapid.IntRange(0, 2).Draw(t, "rw.regex") == 0 {
		r.Old = "/" + rapid.SampledFrom([]string{`^`, `$`, `foo`, `\.`, `ba(r|z)`, `(\w+)\.(\w+)`, `^([^.]+)\.`, `o+`, `x*`, `[0-9]+`, `srv\.([^.]+)`, `(a)(b)?`}).Draw(t, "rw.re") + "/"
		r.New = rapid.SampledFrom([]string{"X", "", "pre.", "${1}", "$1", "${2}.${1}", "${1}_x", "$1_x", "a.${0}.b", "${9}", "$$", "servers.${1}.collectd"}).Draw(t, "rw.tpl")
		r.Max = -1
	} else {
		r.Old = gen.Frag(t, "rw.old")
		if rapid.IntRange(0, 4).Draw(t, "rw.olddot") == 0 {
			r.Old = "."
		}
		r.New = rapid.SampledFrom([]string{"X", "", "bar", "foo", "o", "..", "a.b", "$1"}).Draw(t, "rw.new")
		r.Max = rapid.SampledFrom([]int{-1, -1, 0, 1, 1, 2, 5}).Draw(t, "rw.max")
	}
	switch rapid.IntRange(0, 5).Draw(t, "rw.notk") {
	case 0:
		r.Not = gen.Frag(t, "rw.not")
	case 1:
		r.Not = "/" + rapid.SampledFrom([]string{`^foo`, `bar$`, `\d`, `^a`, `x|b`}).Draw(t, "rw.notre") + "/"
	}
	return r
}

// ---- table model ------------------------------------------------------------------------------

type AggModel struct {
	Filter  gen.Filter // Regex is non-empty
	DropRaw bool
	Cache   bool
}

type DestModel struct {
	Filter  gen.Filter
	Inst    int // instance number of the destination's address 127.0.0.1:1:i<Inst> (Build uses the position unless InstSet)
	InstSet bool
}

type RouteModel struct {
	Key    string
	Type   string // capture | sendAllMatch | sendFirstMatch | consistentHashing
	Filter gen.Filter
	Dests  []DestModel
}

type Model struct {
	Blacklist []gen.Filter
	Rewriters []RW
	Aggs      []AggModel
	Routes    []RouteModel
}

func (m *Model) String() string {
	var sb strings.Builder
	for _, b := range m.Blacklist {
		fmt.Fprintf(&sb, "blacklist%s ", b)
	}
	for _, r := range m.Rewriters {
		fmt.Fprintf(&sb, "rw%s ", r)
	}
	for _, a := range m.Aggs {
		fmt.Fprintf(&sb, "agg{%s dropRaw=%v} ", a.Filter, a.DropRaw)
	}
	for _, r := range m.Routes {
		fmt.Fprintf(&sb, "route[%s %s %s", r.Key, r.Type, r.Filter)
		for _, d := range r.Dests {
			fmt.Fprintf(&sb, " dest%s", d.Filter)
		}
		sb.WriteString("] ")
	}
	return sb.String()
}

// Outcome is what the reference says happens to one valid line.
type Outcome struct {
	Blacklisted bool
	NewName     string
	AggSeen     []int // aggregations whose complete filter accepts it (before a drop-raw one stops the pipeline)
	DroppedRaw  bool
	Routes      []int         // routes that accept it, in order
	Dests       map[int][]int // per accepting carbon route: destinations that must be handed the line (consistentHashing: nil = exactly one, any)
	Unroutable  bool
}

type compiled struct {
	bl     []*gen.Ref
	aggs   []*gen.Ref
	routes []*gen.Ref
	dests  [][]*gen.Ref
}

func (m *Model) compile() *compiled {
	c := &compiled{}
	for _, f := range m.Blacklist {
		c.bl = append(c.bl, f.Ref())
	}
	for _, a := range m.Aggs {
		c.aggs = append(c.aggs, a.Filter.Ref())
	}
	for _, r := range m.Routes {
		c.routes = append(c.routes, r.Filter.Ref())
		var ds []*gen.Ref
		for _, d := range r.Dests {
			ds = append(ds, d.Filter.Ref())
		}
		c.dests = append(c.dests, ds)
	}
	return c
}

// Dispatch: the reference pipeline for a line that passed validation.
func (m *Model) Dispatch(name string) Outcome {
	c := m.compile()
	o := Outcome{Dests: map[int][]int{}}
	for _, b := range c.bl {
		if b.Match(name) {
			o.Blacklisted = true
			return o
		}
	}
	for _, r := range m.Rewriters {
		name = r.Do(name)
	}
	o.NewName = name
	for i, a := range c.aggs {
		if a.Match(name) {
			o.AggSeen = append(o.AggSeen, i)
			if m.Aggs[i].DropRaw {
				o.DroppedRaw = true
				return o
			}
		}
	}
	o.Routes, o.Dests = m.routeName(c, name)
	o.Unroutable = len(o.Routes) == 0
	return o
}

// RouteOnly: routing of a line that bypasses the pipeline (aggregation output).
func (m *Model) RouteOnly(name string) Outcome {
	c := m.compile()
	o := Outcome{NewName: name}
	o.Routes, o.Dests = m.routeName(c, name)
	o.Unroutable = len(o.Routes) == 0
	return o
}

func (m *Model) routeName(c *compiled, name string) ([]int, map[int][]int) {
	var routes []int
	dests := map[int][]int{}
	for i, r := range m.Routes {
		if !c.routes[i].Match(name) {
			continue
		}
		routes = append(routes, i)
		switch r.Type {
		case "sendAllMatch":
			ds := []int{}
			for j := range r.Dests {
				if c.dests[i][j].Match(name) {
					ds = append(ds, j)
				}
			}
			dests[i] = ds
		case "sendFirstMatch":
			ds := []int{}
			for j := range r.Dests {
				if c.dests[i][j].Match(name) {
					ds = append(ds, j)
					break
				}
			}
			dests[i] = ds
		case "consistentHashing":
			dests[i] = nil
		}
	}
	return routes, dests
}

// ---- generator ------------------------------------------------------------------------------------

func GenModel(t *rapid.T, maxRoutes int, withAggs bool) *Model {
	m := &Model{}
	pct := rapid.SampledFrom([]int{10, 20, 35}).Draw(t, "filterdensity")
	for i, n := 0, rapid.IntRange(0, 3).Draw(t, "nblack"); i < n; i++ {
		f := gen.GenFilter(t, "bl", pct+10)
		if f.IsEmpty() {
			f.Sub = gen.Frag(t, "bl.sub") // an empty blacklist entry would drop everything
		}
		m.Blacklist = append(m.Blacklist, f)
	}
	for i, n := 0, rapid.IntRange(0, 3).Draw(t, "nrw"); i < n; i++ {
		if i > 0 && rapid.IntRange(0, 3).Draw(t, "repeatrule") == 0 {
			m.Rewriters = append(m.Rewriters, m.Rewriters[rapid.IntRange(0, i-1).Draw(t, "which")]) // the same rule twice is applied twice
			continue
		}
		m.Rewriters = append(m.Rewriters, GenRW(t))
	}
	if withAggs {
		for i, n := 0, rapid.IntRange(0, 3).Draw(t, "nagg"); i < n; i++ {
			f := gen.GenFilter(t, "agg", pct)
			if f.Regex == "" {
				f.Regex = gen.Regex(t, "agg.re")
			}
			m.Aggs = append(m.Aggs, AggModel{Filter: f, DropRaw: rapid.IntRange(0, 2).Draw(t, "dropraw") == 0, Cache: rapid.Bool().Draw(t, "cache")})
		}
	}
	nr := rapid.IntRange(1, maxRoutes).Draw(t, "nroutes")
	for i := 0; i < nr; i++ {
		r := RouteModel{Key: fmt.Sprintf("r%d", i), Filter: gen.GenFilter(t, "route", pct)}
		r.Type = rapid.SampledFrom([]string{"capture", "capture", "sendAllMatch", "sendFirstMatch", "sendAllMatch", "sendFirstMatch", "consistentHashing"}).Draw(t, "rtype")
		if r.Type != "capture" {
			nd := rapid.IntRange(1, 4).Draw(t, "ndest")
			for j := 0; j < nd; j++ {
				var d DestModel
				if r.Type != "consistentHashing" {
					d.Filter = gen.GenFilter(t, "dest", pct)
				}
				r.Dests = append(r.Dests, d)
			}
		}
		m.Routes = append(m.Routes, r)
	}
	return m
}

// ---- builder: the real table for a model ---------------------------------------------------------------

type Built struct {
	M      *Model
	Tab    *table.Table
	Caps   map[int]*h.CaptureRoute
	Routes []route.Route
	Dests  [][]*dest.Destination
	Aggs   []*aggregator.Aggregator
	AggOut chan []byte
	Ticks  []chan time.Time
	Clock  *int64
}

type BuildOpts struct {
	Order   bool
	AggToIn bool // aggregators write to table.In (C11) instead of a private channel
	AggFun  string
	AggFmts []string
	InBuf   int
}

func Build(m *Model, o BuildOpts) *Built {
	b := &Built{M: m, Tab: h.NewTable(o.Order), Caps: map[int]*h.CaptureRoute{}}
	clock := int64(1500000000)
	b.Clock = &clock
	for _, f := range m.Blacklist {
		mm := f.MustMatcher()
		b.Tab.AddBlacklist(&mm)
	}
	for _, r := range m.Rewriters {
		rw, err := r.Real()
		if err != nil {
			panic("HARNESS-ERROR: generated rewriter refused: " + r.String() + ": " + err.Error())
		}
		b.Tab.AddRewriter(rw)
	}
	b.AggOut = make(chan []byte, 100000)
	for i, a := range m.Aggs {
		tick := make(chan time.Time)
		out := b.AggOut
		if o.AggToIn {
			out = b.Tab.In
		}
		fun := o.AggFun
		if fun == "" {
			fun = "count"
		}
		outFmt := fmt.Sprintf("aggout%d", i)
		if i < len(o.AggFmts) {
			outFmt = o.AggFmts[i]
		}
		ag, err := aggregator.NewMocked(fun, a.Filter.MustMatcher(), outFmt, a.Cache, 10, 100, a.DropRaw, out, o.InBuf, func() time.Time { return time.Unix(*b.Clock, 0) }, tick)
		if err != nil {
			panic("HARNESS-ERROR: " + err.Error())
		}
		b.Tab.AddAggregator(ag)
		b.Aggs = append(b.Aggs, ag)
		b.Ticks = append(b.Ticks, tick)
	}
	for i, r := range m.Routes {
		var rt route.Route
		var ds []*dest.Destination
		if r.Type == "capture" {
			c := h.NewCaptureRoute(r.Key, r.Filter.MustMatcher())
			b.Caps[i] = c
			rt = c
		} else {
			for j, d := range r.Dests {
				inst := j
				if d.InstSet {
					inst = d.Inst
				}
				ds = append(ds, h.CounterDest(r.Key, d.Filter.MustMatcher(), inst))
			}
			var err error
			switch r.Type {
			case "sendAllMatch":
				rt, err = route.NewSendAllMatch(r.Key, r.Filter.MustMatcher(), ds)
			case "sendFirstMatch":
				rt, err = route.NewSendFirstMatch(r.Key, r.Filter.MustMatcher(), ds)
			case "consistentHashing":
				rt, err = route.NewConsistentHashing(r.Key, r.Filter.MustMatcher(), ds)
			}
			if err != nil {
				panic("HARNESS-ERROR: " + err.Error())
			}
		}
		b.Tab.AddRoute(rt)
		b.Routes = append(b.Routes, rt)
		b.Dests = append(b.Dests, ds)
	}
	return b
}

// DestCounts reads the per-destination hand-off counters (after a Flush barrier).
func (b *Built) DestCounts() [][]int64 {
	out := make([][]int64, len(b.Routes))
	for i, rt := range b.Routes {
		if b.M.Routes[i].Type == "capture" {
			continue
		}
		rt.Flush()
		for _, d := range b.Dests[i] {
			out[i] = append(out[i], h.DestDropNoConn(d.Key))
		}
	}
	return out
}

// Close shuts down what Build started (the table itself is shared and reset by the next Build).
func (b *Built) Close() {
	for i, rt := range b.Routes {
		if b.M.Routes[i].Type != "capture" {
			rt.Shutdown()
		}
	}
	for _, a := range b.Aggs {
		a.Shutdown()
	}
}

var _ = matcher.Matcher{}

// ---- carbon's consistent-hash ring for the harness destinations (host 127.0.0.1, instance i<N>) ----------------

type ringEnt struct {
	pos  int
	inst string
	idx  int
}

func ringPos(key string) int {
	sum := md5.Sum([]byte(key))
	return int(sum[0])<<8 | int(sum[1])
}

// CarbonOwner returns the index (into insts) of the destination carbon's ring picks for key: 100 replicas per node with
// keys "('127.0.0.1', 'i<N>'):<r>", 16-bit positions from MD5, entries ordered by (position, host, instance), first
// entry at or after the key's position, wrapping around.  All harness destinations share the host.
func CarbonOwner(insts []int, key string) int {
	var ring []ringEnt
	for i, n := range insts {
		inst := fmt.Sprintf("i%d", n)
		for r := 0; r < 100; r++ {
			ring = append(ring, ringEnt{ringPos(fmt.Sprintf("('127.0.0.1', '%s'):%d", inst, r)), inst, i})
		}
	}
	sort.SliceStable(ring, func(a, b int) bool {
		if ring[a].pos != ring[b].pos {
			return ring[a].pos < ring[b].pos
		}
		return ring[a].inst < ring[b].inst
	})
	p := ringPos(key)
	k := sort.Search(len(ring), func(j int) bool { return ring[j].pos >= p }) % len(ring)
	return ring[k].idx
}
