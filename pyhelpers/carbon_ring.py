# Direct transcription of carbon 0.9.x lib/carbon/hashing.py (ConsistentHashRing), served over a
# line protocol so the Go harness can cross-check its own re-implementation against CPython.
# Under python 2 the tuple comparisons are the original ones (None sorts before any string);
# under python 3 the same order is obtained with an explicit key wrapper.
#   request : {"nodes": [[server, instance-or-null], ...], "keys": ["a.b", ...], "replicas": 100}
#   response: {"assign": [[server, instance-or-null], ...], "ring_len": N}
import sys, json, bisect
from hashlib import md5
PY2 = sys.version_info[0] == 2

class Node(object):
    """(server, instance) with python-2 ordering: None < any string."""
    __slots__ = ("t",)
    def __init__(self, server, instance):
        self.t = (server, instance)
    def _k(self):
        s, i = self.t
        return (s, (0, "") if i is None else (1, i))
    def __lt__(self, o): return (not isinstance(o, Smallest)) and self._k() < o._k()
    def __le__(self, o): return (not isinstance(o, Smallest)) and self._k() <= o._k()
    def __gt__(self, o): return isinstance(o, Smallest) or self._k() > o._k()
    def __ge__(self, o): return isinstance(o, Smallest) or self._k() >= o._k()
    def __eq__(self, o): return isinstance(o, Node) and self.t == o.t
    def __ne__(self, o): return not self.__eq__(o)
    def __hash__(self): return hash(self.t)
    def __str__(self):
        s, i = self.t
        # str() of a python-2 tuple of byte strings
        return "('%s', %s)" % (s, "None" if i is None else "'%s'" % i)

class Smallest(object):
    """stands for None in the search entry (position, None): smaller than every node."""
    def __lt__(self, o): return True
    def __le__(self, o): return True
    def __gt__(self, o): return False
    def __ge__(self, o): return False

class ConsistentHashRing:
    def __init__(self, nodes, replica_count=100):
        self.ring = []
        self.nodes = set()
        self.replica_count = replica_count
        for node in nodes:
            self.add_node(node)

    def compute_ring_position(self, key):
        big_hash = md5(str(key).encode("utf-8") if not PY2 else str(key)).hexdigest()
        small_hash = int(big_hash[:4], 16)
        return small_hash

    def add_node(self, node):
        self.nodes.add(node)
        for i in range(self.replica_count):
            replica_key = "%s:%d" % (node, i)
            position = self.compute_ring_position(replica_key)
            entry = (position, node)
            bisect.insort(self.ring, entry)

    def get_node(self, key):
        assert self.ring
        position = self.compute_ring_position(key)
        search_entry = (position, Smallest())
        index = bisect.bisect_left(self.ring, search_entry) % len(self.ring)
        return self.ring[index][1]

def main():
    while True:
        line = sys.stdin.readline()
        if not line:
            break
        req = json.loads(line)
        nodes = [Node(s.encode("utf-8") if PY2 else s, (i.encode("utf-8") if PY2 and i is not None else i)) for s, i in req["nodes"]]
        ring = ConsistentHashRing(nodes, req.get("replicas", 100))
        out = []
        for k in req["keys"]:
            n = ring.get_node(k.encode("utf-8") if PY2 else k)
            s, i = n.t
            out.append([s.decode("utf-8") if PY2 else s, (i.decode("utf-8") if PY2 and i is not None else i)])
        sys.stdout.write(json.dumps({"assign": out, "ring_len": len(ring.ring)}) + "\n")
        sys.stdout.flush()

main()
