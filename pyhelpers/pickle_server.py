# Long-lived helper (python 2.7 and 3 compatible): CPython's own pickle module as
# encoder / decoder for the C13 and C16 checks.  Line protocol on stdin/stdout:
#   request : one JSON object per line
#     {"op":"dumps","proto":N,"impl":"pickle"|"cPickle","obj":<spec>}  -> {"hex": "..."}
#     {"op":"loads","hex":"..."}                                         -> {"obj": <spec>} | {"error": "..."}
#     {"op":"info"}                                                      -> {"version": "...", "impls": [...]}
#   <spec>: {"t":"list"|"tuple","v":[spec...]} | {"t":"int","v":"<decimal>"} | {"t":"long","v":"<decimal>"} (py2 long)
#         | {"t":"float","v":"<repr>"} | {"t":"str","v":"<text>"} (py3 str / py2 byte string, utf-8)
#         | {"t":"unicode","v":"<text>"} (py2 unicode / py3 str) | {"t":"none"} | {"t":"dict"} | {"t":"ref","i":k}
#           (k-th object created so far with "id": k, for shared references -> memo opcodes)
import sys, json, binascii, pickle
PY2 = sys.version_info[0] == 2
if PY2:
    import cPickle
    impls = {"pickle": pickle, "cPickle": cPickle}
else:
    impls = {"pickle": pickle}
    try:
        import _pickle  # the C accelerator is what pickle.dumps already uses in py3
    except ImportError:
        pass

def build(spec, memo):
    t = spec["t"]
    if t == "list":
        o = [build(x, memo) for x in spec["v"]]
    elif t == "tuple":
        o = tuple(build(x, memo) for x in spec["v"])
    elif t == "int":
        o = int(spec["v"])
    elif t == "long":
        o = long(spec["v"]) if PY2 else int(spec["v"])
    elif t == "float":
        o = float(spec["v"])
    elif t == "str":
        v = spec["v"]
        o = v.encode("utf-8") if PY2 else v
    elif t == "unicode":
        o = spec["v"]
        if PY2 and not isinstance(o, unicode):
            o = o.decode("utf-8")
    elif t == "none":
        o = None
    elif t == "dict":
        o = {"a": 1}
    elif t == "ref":
        return memo[spec["i"]]
    else:
        raise ValueError("bad spec " + repr(t))
    if "id" in spec:
        memo[spec["id"]] = o
    return o

def describe(o):
    if o is None:
        return {"t": "none"}
    if isinstance(o, bool):
        return {"t": "bool", "v": bool(o)}
    if isinstance(o, list):
        return {"t": "list", "v": [describe(x) for x in o]}
    if isinstance(o, tuple):
        return {"t": "tuple", "v": [describe(x) for x in o]}
    if PY2 and isinstance(o, long):
        return {"t": "int", "v": str(int(o))}
    if isinstance(o, int):
        return {"t": "int", "v": str(o)}
    if isinstance(o, float):
        return {"t": "float", "v": repr(o)}
    if PY2 and isinstance(o, str):
        return {"t": "str", "v": o.decode("utf-8", "replace")}
    if PY2 and isinstance(o, unicode):
        return {"t": "unicode", "v": o}
    if isinstance(o, str):
        return {"t": "str", "v": o}
    if isinstance(o, bytes):
        return {"t": "bytes", "v": binascii.hexlify(o).decode("ascii")}
    return {"t": "other", "v": repr(o)}

def main():
    out = sys.stdout
    while True:
        line = sys.stdin.readline()
        if not line:
            break
        try:
            req = json.loads(line)
            op = req["op"]
            if op == "info":
                resp = {"version": sys.version.split()[0], "impls": sorted(impls)}
            elif op == "dumps":
                m = impls[req.get("impl", "pickle")]
                b = m.dumps(build(req["obj"], {}), req["proto"])
                resp = {"hex": binascii.hexlify(b).decode("ascii")}
            elif op == "loads":
                b = binascii.unhexlify(req["hex"])
                try:
                    resp = {"obj": describe(pickle.loads(b))}
                except Exception as e:
                    resp = {"error": "%s: %s" % (type(e).__name__, e)}
            else:
                resp = {"error": "bad op"}
        except Exception as e:
            resp = {"fatal": "%s: %s" % (type(e).__name__, e)}
        out.write(json.dumps(resp) + "\n")
        out.flush()

main()
