#!/bin/sh
# Offline setup: pre-compile every property's test binary (warms the Go build cache). Nothing is fetched.
set -e
cd "$(dirname "$0")/harness"
export GOFLAGS=-mod=mod GOPROXY=off GOSUMDB=off GOTOOLCHAIN=local
[ -f go.sum ] || cp /repo/go.sum go.sum
go build -tags verif ./... 
go vet -tags verif ./internal/... >/dev/null 2>&1 || true
for d in c*/; do
  go test -c -vet=off -tags verif -o /dev/null "./$d" || exit 1
done
# packages with -race runs: warm the race-instrumented build too (cold: ~75 s)
for d in c18 c19; do
  [ -d "$d" ] && go test -c -race -vet=off -tags verif -o /dev/null "./$d"
done
echo setup ok
