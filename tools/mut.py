#!/usr/bin/env python3
"""Sensitivity helper: plant a change in a scratch copy of /repo and run a check against it.

  tools/mut.py <ID> [--tier quick] [--only REGEX] -- <relpath> <old> <new> [<relpath> <old> <new> ...]
  tools/mut.py <ID> --patch file.diff

/repo is never touched. The scratch copy lives under /dev/shm and is removed afterwards.
Exit code = exit code of ./check (1 expected = change detected).
"""
import os, shutil, subprocess, sys, argparse
ap = argparse.ArgumentParser()
ap.add_argument("id"); ap.add_argument("--tier", default="quick"); ap.add_argument("--only"); ap.add_argument("--patch")
ap.add_argument("edits", nargs="*")
a = ap.parse_args()
scratch = "/dev/shm/scratch-repo-%d" % os.getpid()
shutil.rmtree(scratch, ignore_errors=True)
subprocess.check_call(["rsync", "-a", "--exclude", ".git", "/repo/", scratch + "/"])
try:
    if a.patch:
        subprocess.check_call(["patch", "-p1", "-s", "-d", scratch, "-i", os.path.abspath(a.patch)])
    e = a.edits
    assert len(e) % 3 == 0
    for i in range(0, len(e), 3):
        p = os.path.join(scratch, e[i])
        s = open(p).read()
        if e[i+1] not in s:
            print("MUT: old string not found in", e[i]); sys.exit(3)
        s = s.replace(e[i+1], e[i+2], 1)
        open(p, "w").write(s)
    r = subprocess.run(["go", "build", "./..."], cwd=scratch, env=dict(os.environ, GOFLAGS="-mod=mod", GOPROXY="off", GOSUMDB="off"), stdout=subprocess.PIPE, stderr=subprocess.STDOUT, text=True)
    if r.returncode != 0:
        print("MUT: mutant does not compile:\n" + r.stdout[-2000:]); sys.exit(3)
    cmd = ["/verif/check", a.id, "--tier", a.tier]
    if a.only:
        cmd += ["--only", a.only]
    env = dict(os.environ, VERIF_REPO=scratch, VERIF_NO_EVIDENCE="1")
    r = subprocess.run(cmd, env=env, stdout=subprocess.PIPE, stderr=subprocess.STDOUT, text=True)
    lines = [l for l in r.stdout.splitlines() if "[rapid] draw" not in l]
    print("\n".join(lines[-25:]))
    print("MUT-RESULT id=%s rc=%d (%s)" % (a.id, r.returncode, {0: "MISSED", 1: "DETECTED", 2: "INCONCLUSIVE"}.get(r.returncode, "?")))
    sys.exit(r.returncode)
finally:
    shutil.rmtree(scratch, ignore_errors=True)
