#!/bin/bash
# tools/quick_all.sh [ids...]  -- runs every quick check once against /repo, refreshing evidence/*.json; summary on stdout
cd "$(dirname "$0")/.."
ids=${@:-C01 C02 C03 C04 C05 C06 C07 C08 C09 C10 C11 C12 C13 C14 C15 C16 C17 C18 C19 C20}
for id in $ids; do
  t0=$(date +%s)
  ./check $id > /dev/shm/quick-$id.log 2>&1
  rc=$?
  echo "$id rc=$rc wall=$(( $(date +%s) - t0 ))s $(grep -c KNOWN-FINDING /dev/shm/quick-$id.log) known-finding lines; $(grep '^evidence:' /dev/shm/quick-$id.log | tail -1)"
done
