#!/bin/bash
# tools/seed_batch.sh <prefix-letter> <worktree-prefix> <ID>...   confirm + quick-eval each finished seeded change
# e.g. tools/seed_batch.sh t /tmp/w2- C01 C02
cd "$(dirname "$0")/.."
pfx=$1; wtp=$2; shift 2
for id in "$@"; do
  n=${id#C}; name="${pfx}${n}-${id}"
  log=/dev/shm/seedbatch-$name.log
  tools/seed_confirm.py "$wtp$id" "$name" "$id" --tags verif > "$log" 2>&1
  rc=$?
  echo "CONFIRM $name rc=$rc $(tail -1 $log)"
  if [ $rc -eq 0 ]; then
    tools/mut.py --tier quick "$id" --patch "seeded/$name/patch.diff" > /dev/shm/seedeval-$name.log 2>&1
    echo "EVAL $name $(grep MUT-RESULT /dev/shm/seedeval-$name.log)"
  fi
done
