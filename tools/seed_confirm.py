#!/usr/bin/env python3
"""Confirm a seeded breaking change produced in a scratch worktree and file it under /verif/seeded/<name>/.

  tools/seed_confirm.py <worktree> <name> <property-id> [--demo-run REGEX] [--demo-pkg ./pkg]

Steps (all in a scratch copy of /repo under /dev/shm, never in /repo):
  1. patch.diff applies to /repo HEAD, `go build ./...` and `go build -tags verif ./...` succeed
  2. the existing suite passes with the patch (`go test -vet=off -count=1 ./...`)
  3. the demonstration fails with the patch and passes without it
Then copies patch.diff + demonstration + SEEDED.md to /verif/seeded/<name>/ and writes meta.json.
"""
import argparse, json, os, shutil, subprocess, sys, time

ENV = dict(os.environ, GOFLAGS="-mod=mod", GOPROXY="off", GOSUMDB="off", GOTOOLCHAIN="local")


def sh(cmd, cwd, timeout=1500):
    p = subprocess.run(cmd, cwd=cwd, env=ENV, shell=True, stdout=subprocess.PIPE, stderr=subprocess.STDOUT, text=True, timeout=timeout)
    return p.returncode, p.stdout


def main():
    ap = argparse.ArgumentParser()
    ap.add_argument("wt"); ap.add_argument("name"); ap.add_argument("prop")
    ap.add_argument("--demo-run"); ap.add_argument("--demo-pkg"); ap.add_argument("--tags")
    a = ap.parse_args()
    wt = os.path.abspath(a.wt)
    patch = os.path.join(wt, "patch.diff")
    if not os.path.exists(patch) or os.path.getsize(patch) == 0:
        # derive it from the worktree: tracked modifications only
        rc, out = sh("git diff", wt)
        open(patch, "w").write(out)
    # demonstration files = untracked files of the worktree (minus bookkeeping)
    rc, out = sh("git status --porcelain --untracked-files=all", wt)
    demos = [l[3:] for l in out.splitlines() if l.startswith("??") and os.path.basename(l[3:]) not in ("PROPERTY.json", "SEEDED.md", "patch.diff") and not l[3:].endswith(".diff")]
    scratch = "/dev/shm/seedconf-%d" % os.getpid()
    shutil.rmtree(scratch, ignore_errors=True)
    subprocess.check_call(["rsync", "-a", "--exclude", ".git", "/repo/", scratch + "/"])
    res = {"property": a.prop, "name": a.name, "demo_files": demos, "confirmed_at": time.strftime("%Y-%m-%dT%H:%M:%SZ", time.gmtime())}
    try:
        rc, out = sh("patch -p1 -s --dry-run -i %s" % patch, scratch)
        if rc != 0:
            print("PATCH DOES NOT APPLY:\n" + out); return 1
        sh("patch -p1 -s -i %s" % patch, scratch)
        rc, out = sh("go build ./... && go build -tags verif ./...", scratch)
        res["builds"] = rc == 0
        if rc != 0:
            print("BUILD FAILS:\n" + out[-3000:]); return 1
        rc, out = sh("go test -vet=off -count=1 ./... 2>&1 | grep -v 'no test files'", scratch)
        res["existing_tests_pass_with_patch"] = "FAIL" not in out and "panic:" not in out
        if not res["existing_tests_pass_with_patch"]:
            # the pinned suite has a load-sensitive test (input.TestUdpConnection): re-run only the failing packages, twice
            import re
            bad = sorted(set(re.findall(r"^FAIL\s+(\S+)", out, re.M)))
            ok = bool(bad)
            for pkg in bad:
                good = False
                for _ in range(2):
                    rc2, out2 = sh("go test -vet=off -count=1 %s 2>&1" % pkg, scratch)
                    if rc2 == 0:
                        good = True
                        break
                ok = ok and good
            if ok:
                print("suite: packages %s failed once and passed when re-run alone (load-sensitive test)" % bad)
                res["existing_tests_pass_with_patch"] = True
                res["existing_tests_note"] = "packages %s failed once under load and passed when re-run alone" % bad
        print("existing suite with patch:\n" + "\n".join(out.splitlines()[-14:]))
        if not res["existing_tests_pass_with_patch"]:
            return 1
        for d in demos:
            os.makedirs(os.path.dirname(os.path.join(scratch, d)) or scratch, exist_ok=True)
            shutil.copy(os.path.join(wt, d), os.path.join(scratch, d))
        pkgs = a.demo_pkg or " ".join(sorted({"./" + (os.path.dirname(d) or ".") for d in demos if d.endswith("_test.go")}))
        run = ("-run '%s'" % a.demo_run) if a.demo_run else ""
        tags = ("-tags %s" % a.tags) if a.tags else ""
        cmd = "go test -vet=off -count=1 %s %s %s" % (tags, run, pkgs)
        res["demo_cmd"] = cmd
        rc1, out1 = sh(cmd, scratch)
        print("demo WITH patch (rc=%d):\n%s" % (rc1, "\n".join(out1.splitlines()[-12:])))
        sh("patch -p1 -s -R -i %s" % patch, scratch)
        rc2, out2 = sh(cmd, scratch)
        print("demo WITHOUT patch (rc=%d):\n%s" % (rc2, "\n".join(out2.splitlines()[-6:])))
        res["demo_fails_with_patch"] = rc1 != 0
        res["demo_passes_without_patch"] = rc2 == 0
        ok = rc1 != 0 and rc2 == 0
        if not ok:
            print("NOT CONFIRMED"); return 1
        dst = os.path.join("/verif/seeded", a.name)
        os.makedirs(dst, exist_ok=True)
        shutil.copy(patch, os.path.join(dst, "patch.diff"))
        for d in demos:
            # keep the relative path in the file name; .txt suffix so that the harness module never compiles it
            shutil.copy(os.path.join(wt, d), os.path.join(dst, d.replace("/", "__") + ".txt"))
        if os.path.exists(os.path.join(wt, "SEEDED.md")):
            shutil.copy(os.path.join(wt, "SEEDED.md"), os.path.join(dst, "SEEDED.md"))
        meta_path = os.path.join(dst, "meta.json")
        meta = json.load(open(meta_path)) if os.path.exists(meta_path) else {}
        meta.update(res)
        meta.setdefault("breaks_property", a.prop)
        json.dump(meta, open(meta_path, "w"), indent=1)
        print("CONFIRMED -> " + dst)
        return 0
    finally:
        shutil.rmtree(scratch, ignore_errors=True)


if __name__ == "__main__":
    sys.exit(main())
