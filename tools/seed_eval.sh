#!/bin/bash
# Runs one or more checks against a seeded change (scratch copy, /repo untouched):
#   tools/seed_eval.sh <seeded-name> <tier> <ID> [<ID>...]
cd "$(dirname "$0")/.."
name=$1; tier=$2; shift 2
for id in "$@"; do
  out=$(tools/mut.py --tier "$tier" "$id" --patch "seeded/$name/patch.diff" 2>&1)
  echo "$out" | grep -v "^len\|rapid\] draw" | grep "_test.go:[0-9]*: \|MUT-RESULT\|process died\|INCONCLUSIVE" | head -4 | cut -c1-700
done
