# tools/seed_prepare_round.py: creates scratch worktrees /tmp/wN-<ID> of /repo with PROPERTY.json and ALREADY_USED.txt (mechanisms of all earlier seeds);
# edit the prefix and the property filter line before use; TASK.md = tools/seed_agent_prompt.txt with {WT} replaced.
import json, os, glob, subprocess
props = {json.loads(l)['id']: json.loads(l) for l in open('/verif/properties.jsonl')}
used = {}
for d in sorted(glob.glob('/verif/seeded/*/meta.json')):
    m = json.load(open(d))
    used.setdefault(m.get('breaks_property') or m['property'], []).append((m.get('change','?'), m.get('needs_to_manifest','?')))
for pid, p in props.items():
    if pid not in ('C01','C03','C04','C05','C06','C08','C09','C12','C15','C18'): continue
    wt = '/tmp/wN-%s' % pid
    if not os.path.exists(wt):
        subprocess.check_call(['git','-C','/repo','worktree','add','--detach',wt,'HEAD'], stdout=subprocess.DEVNULL, stderr=subprocess.DEVNULL)
    json.dump(p, open(wt+'/PROPERTY.json','w'), indent=1)
    with open(wt+'/ALREADY_USED.txt','w') as f:
        f.write("Mechanisms already used by earlier exercises for this property, with what each needed to manifest (pick something different in mechanism AND in trigger dimension):\n")
        for c, n in used.get(pid, []):
            f.write("- %s  [needed: %s]\n" % (c, n))
    print(pid, len(used.get(pid, [])))
