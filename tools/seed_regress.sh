#!/bin/bash
# tools/seed_regress.sh [-P n] [names...]: re-evaluates every confirmed seeded change against the quick tier of the
# checks recorded in its meta.json (detected_by_quick_tier_of); prints one line per (seed, check).
cd "$(dirname "$0")/.."
par=4
if [ "$1" = "-P" ]; then par=$2; shift 2; fi
names=${@:-$(ls seeded)}
for n in $names; do
  for id in $(python3 -c "import json;print(' '.join(json.load(open('seeded/$n/meta.json')).get('detected_by_quick_tier_of',[])))"); do
    echo "$n $id"
  done
done | xargs -P $par -L 1 bash -c 'out=$(tools/mut.py --tier quick $1 --patch seeded/$0/patch.diff 2>&1 | grep MUT-RESULT); echo "$0 $1 $out"'
