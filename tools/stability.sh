#!/bin/bash
# Runs every registered quick check at several seeds, several checks at a time (so the machine is busy),
# and reports any non-zero exit.  usage: tools/stability.sh "1 2 3" [ids...]
cd "$(dirname "$0")/.."
seeds=${1:-"1 2 3"}; shift
ids=${@:-$(python3 -c "import sys; sys.path.insert(0,'.'); from checks_config import PROPS; print(' '.join(sorted(PROPS)))")}
mkdir -p /dev/shm/stab
for s in $seeds; do
  for id in $ids; do
    echo "$s $id"
  done
done | xargs -P 6 -L 1 bash -c 'VERIF_SEED=$0 VERIF_NO_EVIDENCE=1 ./check $1 > /dev/shm/stab/$1.$0.log 2>&1; echo "seed=$0 $1 rc=$?"' | tee /dev/shm/stab/summary.txt | grep -v "rc=0" 
echo "runs: $(wc -l < /dev/shm/stab/summary.txt), non-zero: $(grep -vc 'rc=0' /dev/shm/stab/summary.txt)"
