#!/bin/bash
# trial of every thorough command, one after the other (evidence not written)
cd "$(dirname "$0")/.."
for id in ${@:-C01 C02 C03 C04 C05 C06 C07 C08 C09 C10 C11 C12 C13 C14 C15 C16 C17 C18 C19 C20}; do
  t0=$(date +%s)
  VERIF_NO_EVIDENCE=1 ./check $id --tier thorough > /dev/shm/thorough-$id.log 2>&1
  echo "$id rc=$? wall=$(( $(date +%s) - t0 ))s $(grep -c KNOWN-FINDING /dev/shm/thorough-$id.log) known-finding lines"
done
